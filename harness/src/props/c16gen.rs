//! C16: generator of multi-module TypeScript/JavaScript programs.
//!
//! Structured stream: programs that are meant to be valid TypeScript (merging
//! only inside the groups the language allows, consistent export modifiers,
//! import bindings that do not collide with local declarations).
//! Adversarial stream: parseable programs that ignore those rules (an import
//! binding re-declared locally, incompatible merges, several default
//! exports, inconsistent export modifiers).
use crate::rng::Rng;

#[derive(Clone, Debug)]
pub struct GenFile {
  pub spec: String,
  pub text: String,
}

#[derive(Clone, Debug)]
pub struct GenProg {
  pub files: Vec<GenFile>,
  pub roots: Vec<String>,
  pub adversarial: bool,
  pub features: Vec<(String, u64)>,
}

const POOL: &[&str] = &["A", "B", "C", "D", "E", "F", "G", "H"];

#[derive(Clone, Copy, PartialEq, Eq, Debug)]
enum Group {
  Fn,    // function overloads (+ namespace, expando)
  Class, // class (+ interfaces, namespace)
  Iface, // interfaces (+ one const of the same name)
  Enum,  // enums (+ namespace)
  Ns,    // namespaces
  Alias, // type alias (+ one const)
  Var,
  Import,
}

#[derive(Clone, Debug)]
struct Name {
  name: String,
  group: Group,
  exported: bool,
  has_value_var: bool,
  has_ns: bool,
}

#[derive(Clone, Copy, PartialEq, Eq)]
enum Lang {
  Ts,
  Dts,
  Js,
}

struct Scope {
  names: Vec<Name>,
  counter: usize,
}

pub struct Gen<'a> {
  rng: &'a mut Rng,
  adversarial: bool,
  n_mods: usize,
  exts: Vec<&'static str>,
  feats: std::collections::BTreeMap<String, u64>,
  has_default: bool,
  import_counter: usize,
}

fn ind(depth: usize) -> String {
  "  ".repeat(depth)
}

impl<'a> Gen<'a> {
  fn feat(&mut self, f: &str) {
    *self.feats.entry(f.to_string()).or_insert(0) += 1;
  }

  fn mod_spec(&self, i: usize) -> String {
    format!("./m{}.{}", i, self.exts[i])
  }

  /// a specifier for an import/re-export: mostly an existing module
  fn target(&mut self, me: usize) -> String {
    let r = self.rng.below(100);
    if r < 80 {
      let t = self.rng.below(self.n_mods);
      self.mod_spec(t)
    } else if r < 86 {
      self.mod_spec(me)
    } else if r < 92 {
      self.feat("target_missing");
      "./missing.ts".to_string()
    } else if r < 95 {
      self.feat("target_broken");
      "./broken.ts".to_string()
    } else if r < 98 {
      self.feat("target_external");
      "npm:left-pad@1".to_string()
    } else {
      self.feat("target_redirect");
      "./redir.ts".to_string()
    }
  }

  fn pool_name(&mut self) -> String {
    self.rng.pick(POOL).to_string()
  }

  /// pick a name for a declaration of `group` in `scope`; returns (name, exported)
  fn decl_name(&mut self, scope: &mut Scope, group: Group, want_export: bool) -> (String, bool) {
    // merge with an existing compatible name
    let merge_pct = if self.adversarial { 40 } else { 30 };
    if !scope.names.is_empty() && self.rng.chance(merge_pct) {
      let cands: Vec<usize> = (0..scope.names.len())
        .filter(|i| {
          let n = &scope.names[*i];
          if self.adversarial {
            return true;
          }
          match (n.group, group) {
            (Group::Fn, Group::Fn) => false, // overloads are emitted together
            (Group::Fn, Group::Ns) => !n.has_ns,
            (Group::Class, Group::Iface) => true,
            (Group::Class, Group::Ns) => !n.has_ns,
            (Group::Iface, Group::Iface) => true,
            (Group::Iface, Group::Var) => !n.has_value_var,
            (Group::Enum, Group::Enum) => true,
            (Group::Enum, Group::Ns) => !n.has_ns,
            (Group::Ns, Group::Ns) => true,
            (Group::Alias, Group::Var) => !n.has_value_var,
            _ => false,
          }
        })
        .collect();
      if !cands.is_empty() {
        let i = *self.rng.pick(&cands);
        match group {
          Group::Ns => scope.names[i].has_ns = true,
          Group::Var => scope.names[i].has_value_var = true,
          _ => {}
        }
        self.feat("merge");
        let exported = if self.adversarial && self.rng.chance(30) { want_export } else { scope.names[i].exported };
        return (scope.names[i].name.clone(), exported);
      }
    }
    // fresh name from the shared pool (so names collide ACROSS modules)
    for _ in 0..20 {
      let n = self.pool_name();
      if !scope.names.iter().any(|x| x.name == n) {
        scope.names.push(Name {
          name: n.clone(),
          group,
          exported: want_export,
          has_value_var: group == Group::Var,
          has_ns: group == Group::Ns,
        });
        return (n, want_export);
      }
    }
    scope.counter += 1;
    let n = format!("N{}", scope.counter);
    scope.names.push(Name { name: n.clone(), group, exported: want_export, has_value_var: group == Group::Var, has_ns: group == Group::Ns });
    (n, want_export)
  }

  fn ty(&mut self, scope: &Scope) -> String {
    let r = self.rng.below(8);
    match r {
      0 => "string".into(),
      1 => "number".into(),
      2 => "unknown".into(),
      3 if !scope.names.is_empty() => {
        let i = self.rng.below(scope.names.len());
        scope.names[i].name.clone()
      }
      4 => "string[]".into(),
      5 => "{ a: number }".into(),
      6 => "Promise<void>".into(),
      _ => "boolean".into(),
    }
  }

  fn class_body(&mut self, scope: &Scope, lang: Lang, depth: usize) -> String {
    let mut s = String::new();
    let p = ind(depth + 1);
    let n = self.rng.range(0, 7);
    let mut has_ctor = false;
    let member_names = ["p", "q", "m", "s", "g", "constructor2", "prototype2", "x"];
    for _ in 0..n {
      let name = self.rng.pick(&member_names).to_string();
      let stat = if self.rng.chance(35) { "static " } else { "" };
      let ty = self.ty(scope);
      match self.rng.below(12) {
        0 | 1 => {
          self.feat(if stat.is_empty() { "class_prop" } else { "class_static_prop" });
          match lang {
            Lang::Js => s.push_str(&format!("{}{}{} = 1;\n", p, stat, name)),
            Lang::Dts => s.push_str(&format!("{}{}{}: {};\n", p, stat, name, ty)),
            Lang::Ts => s.push_str(&format!("{}{}{}: {} = null as any;\n", p, stat, name, ty)),
          }
        }
        2 => {
          self.feat("class_private_kw");
          match lang {
            Lang::Js => s.push_str(&format!("{}{}#{} = 1;\n", p, stat, name)),
            Lang::Dts => s.push_str(&format!("{}private {}{};\n", p, stat, name)),
            Lang::Ts => s.push_str(&format!("{}private {}{}: {} = null as any;\n", p, stat, name, ty)),
          }
        }
        3 => {
          self.feat("class_hash_private");
          if lang == Lang::Dts {
            s.push_str(&format!("{}#{};\n", p, name));
          } else {
            s.push_str(&format!("{}{}#{} = 1;\n{}{}#{}m() {{}}\n", p, stat, name, p, stat, name));
          }
        }
        4 | 5 => {
          self.feat(if stat.is_empty() { "class_method" } else { "class_static_method" });
          match lang {
            Lang::Js => s.push_str(&format!("{}{}{}(a) {{ return a; }}\n", p, stat, name)),
            Lang::Dts => s.push_str(&format!("{}{}{}(a: {}): void;\n", p, stat, name, ty)),
            Lang::Ts => {
              if self.rng.chance(40) {
                self.feat("method_overloads");
                s.push_str(&format!("{}{}{}(a: string): void;\n{}{}{}(a: number): void;\n", p, stat, name, p, stat, name));
              }
              s.push_str(&format!("{}{}{}(a?: any): void {{}}\n", p, stat, name));
            }
          }
        }
        6 if !has_ctor => {
          has_ctor = true;
          self.feat("ctor");
          match lang {
            Lang::Js => s.push_str(&format!("{}constructor(a) {{ this.a = a; }}\n", p)),
            Lang::Dts => s.push_str(&format!("{}constructor(a: {});\n", p, ty)),
            Lang::Ts => {
              if self.rng.chance(30) {
                self.feat("ctor_overloads");
                s.push_str(&format!("{}constructor(a: string);\n{}constructor(a: number, b?: string);\n", p, p));
                s.push_str(&format!("{}constructor(a: any, b?: any) {{}}\n", p));
              } else {
                self.feat("ctor_param_props");
                s.push_str(&format!("{}constructor(public pa: {}, private pb = 1, readonly pc?: string, plain?: number) {{}}\n", p, ty));
              }
            }
          }
        }
        7 => {
          self.feat("accessor_pair");
          match lang {
            Lang::Dts => s.push_str(&format!("{}{}get {}(): {};\n{}{}set {}(v: {});\n", p, stat, name, ty, p, stat, name, ty)),
            Lang::Js => s.push_str(&format!("{}{}get {}() {{ return 1; }}\n{}{}set {}(v) {{}}\n", p, stat, name, p, stat, name)),
            Lang::Ts => s.push_str(&format!("{}{}get {}(): any {{ return 1; }}\n{}{}set {}(v: any) {{}}\n", p, stat, name, p, stat, name)),
          }
        }
        8 if lang != Lang::Js => {
          self.feat("class_index_sig");
          s.push_str(&format!("{}{}[key: string]: any;\n", p, stat));
        }
        9 if lang != Lang::Dts => {
          self.feat("static_block");
          s.push_str(&format!("{}static {{ }}\n", p));
        }
        10 => {
          self.feat("auto_accessor");
          match lang {
            Lang::Dts => s.push_str(&format!("{}{}accessor {}: {};\n", p, stat, name, ty)),
            _ => s.push_str(&format!("{}{}accessor {} = 1;\n", p, stat, name)),
          }
        }
        _ => {
          self.feat("computed_member");
          match lang {
            Lang::Dts => s.push_str(&format!("{}{}[Symbol.iterator](): any;\n{}\"quoted-{}\": number;\n", p, stat, p, name)),
            Lang::Js => s.push_str(&format!("{}{}[Symbol.iterator]() {{}}\n{}\"quoted-{}\" = 1;\n", p, stat, p, name)),
            Lang::Ts => s.push_str(&format!("{}{}[Symbol.iterator](): any {{}}\n{}\"quoted-{}\": number = 1;\n{}123: string = \"\";\n", p, stat, p, name, p)),
          }
        }
      }
    }
    s
  }

  fn iface_body(&mut self, scope: &Scope, depth: usize) -> String {
    let mut s = String::new();
    let p = ind(depth + 1);
    let names = ["p", "q", "m", "g", "x"];
    for _ in 0..self.rng.range(0, 6) {
      let name = self.rng.pick(&names).to_string();
      let ty = self.ty(scope);
      match self.rng.below(9) {
        0 | 1 => {
          self.feat("iface_prop");
          s.push_str(&format!("{}{}{}: {};\n", p, name, if self.rng.chance(30) { "?" } else { "" }, ty));
        }
        2 | 3 => {
          self.feat("iface_method");
          s.push_str(&format!("{}{}(a: {}): void;\n", p, name, ty));
          if self.rng.chance(40) {
            self.feat("iface_method_overload");
            s.push_str(&format!("{}{}(a: number, b: string): void;\n", p, name));
          }
        }
        4 => {
          self.feat("iface_call_sig");
          s.push_str(&format!("{}(a: {}): string;\n", p, ty));
        }
        5 => {
          self.feat("iface_construct_sig");
          s.push_str(&format!("{}new (a: {}): any;\n", p, ty));
        }
        6 => {
          self.feat("iface_index_sig");
          s.push_str(&format!("{}[key: string]: any;\n", p));
        }
        7 => {
          self.feat("iface_accessors");
          s.push_str(&format!("{}get {}(): {};\n{}set {}(v: {});\n", p, name, ty, p, name, ty));
        }
        _ => {
          self.feat("iface_computed");
          s.push_str(&format!("{}[Symbol.iterator](): any;\n{}\"quoted-{}\": number;\n", p, p, name));
        }
      }
    }
    s
  }

  /// items of a module body or of a namespace body
  fn items(&mut self, scope: &mut Scope, lang: Lang, depth: usize, top: Option<usize>, in_ambient: bool) -> String {
    let mut out = String::new();
    let p = ind(depth);
    let n_items = if depth == 0 { self.rng.range(2, 7) } else { self.rng.range(0, 4) };
    let declare = if lang == Lang::Dts && depth == 0 { "declare " } else { "" };
    let ambient = in_ambient || lang == Lang::Dts;
    for _ in 0..n_items {
      let want_export = self.rng.chance(if depth == 0 { 60 } else { 70 });
      let kind = self.rng.below(if lang == Lang::Js { 5 } else { 12 });
      match kind {
        // ---- function (overloads, expando, merged namespace)
        0 | 1 => {
          let (name, exported) = self.decl_name(scope, Group::Fn, want_export);
          let ex = if exported { "export " } else { "" };
          self.feat("fn");
          match lang {
            Lang::Js => out.push_str(&format!("{}{}function {}(a) {{ return a; }}\n", p, ex, name)),
            _ if ambient => {
              let n_over = self.rng.range(1, 3);
              if n_over > 1 {
                self.feat("fn_overloads");
              }
              for k in 0..n_over {
                out.push_str(&format!("{}{}{}function {}(a{}: string): void;\n", p, ex, declare, name, k));
              }
            }
            _ => {
              let n_over = if self.rng.chance(40) { self.rng.range(1, 3) } else { 0 };
              if n_over > 0 {
                self.feat("fn_overloads");
              }
              for k in 0..n_over {
                out.push_str(&format!("{}{}function {}(a{}: string): void;\n", p, ex, name, k));
              }
              out.push_str(&format!("{}{}function {}(a?: any): void {{}}\n", p, ex, name));
            }
          }
          if !ambient && self.rng.chance(35) {
            self.feat("expando");
            let props = ["x", "y", "A", "prop"];
            for _ in 0..self.rng.range(1, 3) {
              let pr = self.rng.pick(&props).to_string();
              match self.rng.below(3) {
                0 => out.push_str(&format!("{}{}.{} = 1;\n", p, name, pr)),
                1 => out.push_str(&format!("{}{}.{} = function () {{}};\n", p, name, pr)),
                _ => out.push_str(&format!("{}{}.{} = () => 1;\n", p, name, pr)),
              }
            }
          }
        }
        // ---- class
        2 | 3 => {
          let (name, exported) = self.decl_name(scope, Group::Class, want_export);
          let ex = if exported { "export " } else { "" };
          self.feat("class");
          let body = self.class_body(scope, if ambient && lang != Lang::Js { Lang::Dts } else { lang }, depth);
          let abs = if lang != Lang::Js && self.rng.chance(15) { "abstract " } else { "" };
          let ext = if self.rng.chance(25) && scope.names.iter().any(|n| n.group == Group::Class && n.name != name) {
            let b = scope.names.iter().find(|n| n.group == Group::Class && n.name != name).unwrap().name.clone();
            format!(" extends {}", b)
          } else {
            String::new()
          };
          out.push_str(&format!("{}{}{}{}class {}{} {{\n{}{}}}\n", p, ex, declare, abs, name, ext, body, p));
        }
        // ---- variables (incl. destructuring)
        4 => {
          let (name, exported) = self.decl_name(scope, Group::Var, want_export);
          let ex = if exported { "export " } else { "" };
          self.feat("var");
          if ambient && lang != Lang::Js {
            out.push_str(&format!("{}{}{}const {}: number;\n", p, ex, declare, name));
          } else {
            match self.rng.below(5) {
              0 => out.push_str(&format!("{}{}const {} = 1;\n", p, ex, name)),
              1 => {
                let (n2, _) = self.decl_name_fresh(scope, Group::Var, exported);
                out.push_str(&format!("{}{}let {} = 1, {} = \"s\";\n", p, ex, name, n2));
              }
              2 => {
                self.feat("destructuring");
                let (n2, _) = self.decl_name_fresh(scope, Group::Var, exported);
                let (n3, _) = self.decl_name_fresh(scope, Group::Var, exported);
                out.push_str(&format!(
                  "{}{}const {{ {}, k: [{}, ...{}] }} = {{ {}: 1, k: [1, 2, 3] }};\n",
                  p, ex, name, n2, n3, name
                ));
              }
              3 => {
                self.feat("destructuring");
                let (n2, _) = self.decl_name_fresh(scope, Group::Var, exported);
                out.push_str(&format!("{}{}var [{}, {{ z: {} = 5 }}] = [1, {{ z: 2 }}];\n", p, ex, name, n2));
              }
              _ => out.push_str(&format!("{}{}const {} = function () {{}};\n", p, ex, name)),
            }
          }
        }
        // ---- interface
        5 | 6 => {
          let (name, exported) = self.decl_name(scope, Group::Iface, want_export);
          let ex = if exported { "export " } else { "" };
          self.feat("interface");
          let body = self.iface_body(scope, depth);
          out.push_str(&format!("{}{}{}interface {} {{\n{}{}}}\n", p, ex, declare, name, body, p));
        }
        // ---- type alias
        7 => {
          let (name, exported) = self.decl_name(scope, Group::Alias, want_export);
          let ex = if exported { "export " } else { "" };
          self.feat("type_alias");
          let ty = self.ty(scope);
          out.push_str(&format!("{}{}{}type {}<T = {}> = T | {{ v: {} }};\n", p, ex, declare, name, ty, ty));
        }
        // ---- enum
        8 => {
          let (name, exported) = self.decl_name(scope, Group::Enum, want_export);
          let ex = if exported { "export " } else { "" };
          self.feat("enum");
          let c = if self.rng.chance(30) { "const " } else { "" };
          let k = scope.counter;
          scope.counter += 1;
          out.push_str(&format!("{}{}{}{}enum {} {{ M{}, N{} = 2, S{} = \"s\" }}\n", p, ex, declare, c, name, k, k, k));
        }
        // ---- namespace (nested, dotted, merged)
        9 | 10 => {
          if depth >= 3 {
            continue;
          }
          let (name, exported) = self.decl_name(scope, Group::Ns, want_export);
          let ex = if exported { "export " } else { "" };
          self.feat("namespace");
          let dotted = if self.rng.chance(30) {
            self.feat("namespace_dotted");
            // segment names mostly outside the declaration pool: a segment that is declared
            // again inside the body is the input class of the known finding F-C16a
            let collide = self.rng.chance(12);
            if collide {
              self.feat("namespace_dotted_segment_from_pool");
            }
            let a = if collide { self.pool_name() } else { format!("Seg{}", self.rng.below(3)) };
            if self.rng.chance(40) {
              let b = if collide && self.rng.chance(50) { a.clone() } else { format!("Sub{}", self.rng.below(3)) };
              format!(".{}.{}", a, b)
            } else {
              format!(".{}", a)
            }
          } else {
            String::new()
          };
          let kw = if self.rng.chance(20) { "module" } else { "namespace" };
          let decl_kw = if !ambient && self.rng.chance(15) { "declare " } else { declare };
          let mut inner = Scope { names: vec![], counter: 100 * (depth + 1) };
          let body = self.items(&mut inner, lang, depth + 1, None, ambient || !decl_kw.is_empty());
          out.push_str(&format!("{}{}{}{} {}{} {{\n{}{}}}\n", p, ex, decl_kw, kw, name, dotted, body, p));
        }
        // ---- misc statements that the filler ignores, ambient modules
        _ => {
          if depth == 0 {
            match self.rng.below(4) {
              0 if lang != Lang::Dts => out.push_str("if (Math.random() > 2) { var hidden = 1; }\n"),
              1 if lang != Lang::Dts => out.push_str("label: for (const it of [1]) { break label; }\n"),
              2 => {
                self.feat("declare_module_str");
                out.push_str("declare module \"ambient-mod\" {\n  export const inner: number;\n  export default inner;\n}\n");
              }
              _ => {
                self.feat("declare_global");
                out.push_str("declare global {\n  interface GlobalThing { g: number }\n  var globalVar: string;\n}\n");
              }
            }
          }
        }
      }
    }
    if let Some(me) = top {
      out.push_str(&self.module_level(scope, lang, me));
    }
    out
  }

  fn decl_name_fresh(&mut self, scope: &mut Scope, group: Group, exported: bool) -> (String, bool) {
    scope.counter += 1;
    let n = format!("v{}", scope.counter);
    scope.names.push(Name { name: n.clone(), group, exported, has_value_var: true, has_ns: false });
    (n, exported)
  }

  /// imports, re-exports, export lists, default export
  fn module_level(&mut self, scope: &mut Scope, lang: Lang, me: usize) -> String {
    let mut head = String::new();
    let mut tail = String::new();
    let ts = lang != Lang::Js;
    // imports
    for _ in 0..self.rng.range(0, 4) {
      let t = self.target(me);
      self.import_counter += 1;
      let k = self.import_counter;
      // adversarial: an import binding that collides with a local declaration
      let local = |g: &mut Gen, base: &str| -> String {
        if g.adversarial && g.rng.chance(35) {
          g.feat("import_collides_with_local");
          g.pool_name()
        } else {
          format!("i{}_{}", k, base)
        }
      };
      match self.rng.below(if ts { 9 } else { 4 }) {
        0 => {
          self.feat("import_named");
          let a = self.pool_name();
          let b = self.pool_name();
          let la = local(self, &a);
          let lb = local(self, "b");
          head.push_str(&format!("import {{ {} as {}, {} as {} }} from \"{}\";\n", a, la, b, lb, t));
          scope.names.push(Name { name: la, group: Group::Import, exported: false, has_value_var: true, has_ns: true });
        }
        1 => {
          self.feat("import_default");
          let l = local(self, "def");
          head.push_str(&format!("import {} from \"{}\";\n", l, t));
          scope.names.push(Name { name: l, group: Group::Import, exported: false, has_value_var: true, has_ns: true });
        }
        2 => {
          self.feat("import_namespace");
          let l = local(self, "ns");
          head.push_str(&format!("import * as {} from \"{}\";\n", l, t));
          scope.names.push(Name { name: l, group: Group::Import, exported: false, has_value_var: true, has_ns: true });
        }
        3 => {
          self.feat("import_default_as");
          let l = local(self, "d2");
          head.push_str(&format!("import {{ default as {} }} from \"{}\";\n", l, t));
          scope.names.push(Name { name: l, group: Group::Import, exported: false, has_value_var: true, has_ns: true });
        }
        4 => {
          self.feat("import_type");
          let a = self.pool_name();
          let l = local(self, "t");
          head.push_str(&format!("import type {{ {} as {} }} from \"{}\";\n", a, l, t));
          scope.names.push(Name { name: l, group: Group::Import, exported: false, has_value_var: true, has_ns: true });
        }
        5 => {
          self.feat("import_inline_type");
          let a = self.pool_name();
          let l = local(self, "it");
          head.push_str(&format!("import {{ type {} as {} }} from \"{}\";\n", a, l, t));
          scope.names.push(Name { name: l, group: Group::Import, exported: false, has_value_var: true, has_ns: true });
        }
        6 => {
          self.feat("import_equals_require");
          let l = local(self, "req");
          let ex = if self.rng.chance(30) { "export " } else { "" };
          head.push_str(&format!("{}import {} = require(\"{}\");\n", ex, l, t));
          scope.names.push(Name { name: l, group: Group::Import, exported: !ex.is_empty(), has_value_var: true, has_ns: true });
        }
        7 => {
          // import A = NS.B.C on a local namespace or an import
          if let Some(base) = scope.names.iter().find(|n| n.group == Group::Ns || n.group == Group::Import).map(|n| n.name.clone()) {
            self.feat("import_equals_entity");
            let l = local(self, "ent");
            let ex = if self.rng.chance(40) { "export " } else { "" };
            let a = self.pool_name();
            let path = if self.rng.chance(40) { format!("{}.{}.{}", base, a, self.pool_name()) } else { format!("{}.{}", base, a) };
            tail.push_str(&format!("{}import {} = {};\n", ex, l, path));
            scope.names.push(Name { name: l, group: Group::Import, exported: !ex.is_empty(), has_value_var: true, has_ns: true });
          }
        }
        _ => {
          self.feat("import_side_effect");
          head.push_str(&format!("import \"{}\";\n", t));
        }
      }
    }
    // re-exports
    for _ in 0..self.rng.range(0, 4) {
      let t = self.target(me);
      match self.rng.below(if ts { 9 } else { 6 }) {
        0 | 1 | 2 => {
          self.feat("export_star");
          tail.push_str(&format!("export * from \"{}\";\n", t));
        }
        3 => {
          self.feat("export_star_as");
          let n = if self.rng.chance(50) { self.pool_name() } else { format!("ns{}", self.rng.below(3)) };
          tail.push_str(&format!("export * as {} from \"{}\";\n", n, t));
        }
        4 => {
          self.feat("export_named_from");
          let a = self.pool_name();
          let b = self.pool_name();
          let c = self.pool_name();
          tail.push_str(&format!("export {{ {}, {} as {} }} from \"{}\";\n", a, b, c, t));
        }
        5 => {
          self.feat("export_default_from");
          match self.rng.below(3) {
            0 if !self.has_default || self.adversarial => {
              self.has_default = true;
              tail.push_str(&format!("export {{ default }} from \"{}\";\n", t));
            }
            1 => tail.push_str(&format!("export {{ default as fromDefault{} }} from \"{}\";\n", self.rng.below(3), t)),
            _ if !self.has_default || self.adversarial => {
              self.has_default = true;
              let a = self.pool_name();
              tail.push_str(&format!("export {{ {} as default }} from \"{}\";\n", a, t));
            }
            _ => {}
          }
        }
        6 => {
          self.feat("export_type_from");
          let a = self.pool_name();
          tail.push_str(&format!("export type {{ {} }} from \"{}\";\n", a, t));
        }
        7 => {
          self.feat("export_type_star");
          tail.push_str(&format!("export type * from \"{}\";\n", t));
        }
        _ => {
          self.feat("export_string_name");
          let a = self.pool_name();
          tail.push_str(&format!("export {{ {} as \"str-name\" }} from \"{}\";\n", a, t));
        }
      }
    }
    // local export lists
    let locals: Vec<Name> = scope.names.iter().filter(|n| (self.adversarial || !n.exported) && n.group != Group::Ns).cloned().collect();
    if !locals.is_empty() && self.rng.chance(50) {
      self.feat("export_list");
      let mut parts = vec![];
      for _ in 0..self.rng.range(1, 3) {
        let n = self.rng.pick(&locals).clone();
        if self.rng.chance(50) {
          parts.push(format!("{} as alias{}", n.name, self.rng.below(4)));
        } else {
          parts.push(n.name.clone());
        }
      }
      parts.dedup();
      let kw = if ts && self.rng.chance(15) { "export type" } else { "export" };
      tail.push_str(&format!("{} {{ {} }};\n", kw, parts.join(", ")));
    }
    // default export
    let n_defaults = if self.adversarial && self.rng.chance(30) { 2 } else { 1 };
    for _ in 0..n_defaults {
      if (self.has_default && !self.adversarial) || !self.rng.chance(55) {
        continue;
      }
      self.has_default = true;
      let locals: Vec<String> = scope.names.iter().filter(|n| n.group != Group::Import || self.adversarial).map(|n| n.name.clone()).collect();
      match self.rng.below(if ts { 10 } else { 6 }) {
        0 => {
          self.feat("default_fn");
          if lang == Lang::Dts {
            tail.push_str("export default function dfn(a: string): void;\n");
          } else if ts && self.rng.chance(40) {
            self.feat("default_fn_overloads");
            tail.push_str("export default function dfn(a: string): void;\nexport default function dfn(a: number): void;\nexport default function dfn(a?: any) {}\n");
          } else if self.rng.chance(50) {
            tail.push_str("export default function dfn() {}\n");
          } else {
            tail.push_str("export default function () {}\n");
          }
        }
        1 => {
          self.feat("default_class");
          let body = self.class_body(scope, lang, 0);
          let nm = if self.rng.chance(50) { " DCls" } else { "" };
          if lang == Lang::Dts {
            tail.push_str(&format!("export default class DCls {{\n{}}}\n", body));
          } else {
            tail.push_str(&format!("export default class{} {{\n{}}}\n", nm, body));
          }
        }
        2 if lang != Lang::Dts => {
          self.feat("default_expr");
          tail.push_str("export default { a: 1, b: [2] };\n");
        }
        3 if !locals.is_empty() => {
          self.feat("default_ident");
          tail.push_str(&format!("export default {};\n", self.rng.pick(&locals)));
        }
        4 if !locals.is_empty() => {
          self.feat("export_as_default");
          tail.push_str(&format!("export {{ {} as default }};\n", self.rng.pick(&locals)));
        }
        5 if lang != Lang::Dts => {
          self.feat("default_expr");
          tail.push_str("export default 1 + 2;\n");
        }
        6 => {
          self.feat("default_interface");
          let body = self.iface_body(scope, 0);
          tail.push_str(&format!("export default interface DIface {{\n{}}}\n", body));
          if self.rng.chance(30) && lang == Lang::Ts {
            self.feat("default_interface_merged_fn");
            tail.push_str("export default function DIface() {}\n");
          }
        }
        7 if !locals.is_empty() => {
          self.feat("export_assignment");
          tail.push_str(&format!("export = {};\n", self.rng.pick(&locals)));
        }
        8 if lang != Lang::Dts => {
          self.feat("default_arrow");
          tail.push_str("export default (a: number) => a;\n");
        }
        _ => {
          self.has_default = false;
        }
      }
    }
    format!("{}{}", head, tail)
  }
}

pub fn gen_program(rng: &mut Rng, adversarial: bool) -> GenProg {
  let n_mods = rng.range(2, 6);
  let ext_pool: &[&'static str] = &["ts", "ts", "ts", "ts", "ts", "d.ts", "js", "tsx", "mts", "mjs"];
  let exts: Vec<&'static str> = (0..n_mods).map(|_| *rng.pick(ext_pool)).collect();
  let mut g = Gen { rng, adversarial, n_mods, exts, feats: Default::default(), has_default: false, import_counter: 0 };
  let mut files = vec![];
  let mut roots = vec![];
  for me in 0..n_mods {
    g.has_default = false;
    let ext = g.exts[me];
    let lang = match ext {
      "d.ts" => Lang::Dts,
      "js" | "mjs" => Lang::Js,
      _ => Lang::Ts,
    };
    let mut scope = Scope { names: vec![], counter: 0 };
    let mut text = g.items(&mut scope, lang, 0, Some(me), false);
    if lang == Lang::Js && g.rng.chance(40) {
      // a JS module typed by a sibling declaration file
      g.feat("ts_self_types");
      let mut dscope = Scope { names: vec![], counter: 0 };
      let saved = g.has_default;
      g.has_default = false;
      let dts = g.items(&mut dscope, Lang::Dts, 0, Some(me), false);
      g.has_default = saved;
      files.push(GenFile { spec: format!("file:///p/m{}_types.d.ts", me), text: dts });
      text = format!("// @ts-self-types=\"./m{}_types.d.ts\"\n{}", me, text);
    }
    let spec = format!("file:///p/m{}.{}", me, ext);
    roots.push(spec.clone());
    files.push(GenFile { spec, text });
  }
  files.push(GenFile { spec: "file:///p/broken.ts".into(), text: "export const ok = 1;\nimport {{{ from ;;; \n".into() });
  files.push(GenFile { spec: "file:///p/data.json".into(), text: "  { \"a\": 1, \"default\": 2 }\n".into() });
  if g.rng.chance(30) {
    g.feat("json_module");
    let last = files.iter().position(|f| f.spec == roots[0]).unwrap();
    if !roots[0].ends_with(".d.ts") {
      files[last].text.push_str("import jsonData from \"./data.json\" with { type: \"json\" };\nexport * from \"./data.json\" with { type: \"json\" };\nexport { jsonData };\n");
    }
  }
  let features = g.feats.into_iter().collect();
  GenProg { files, roots, adversarial, features }
}
