//! C12: fast check is all-or-nothing per package, cache-transparent and deterministic.
//!
//! One case = one history on the REAL code:
//!   sources v1:  no cache (x5, determinism) / shared MemCache cold / warm
//!   edit one source -> v2:  no cache / the same cache (stale or still valid) / warm
//!   back to v1 with the same cache
//! Per world state the harness abstracts what the real tracer found (hook
//! `verif_public_ranges`: module order, dependencies) and the outcome of every module
//! (from the cache-less run); the Coq driver model (Model/FcDriver.v) then predicts, for
//! every step, the fast-check slot of every module, the cache content and the cache
//! traffic, and judges the REAL slots: all-or-nothing per package, equality with the
//! cache-less run, recorded dependencies = dependencies the emitted text declares.
use crate::common::*;
use crate::fcheck::*;
use crate::rng::Rng;
use crate::sexp::Sx;
use deno_graph::fast_check::{FastCheckCacheKey, FastCheckCacheModuleItem};
use deno_graph::source::DefaultJsrUrlProvider;
use deno_graph::*;
use deno_semver::package::PackageNv;
use serde_json::json;
use std::collections::{BTreeMap, BTreeSet, VecDeque};

#[derive(Default)]
struct Tables {
  specs: BTreeMap<String, u64>,
  nvs: BTreeMap<String, u64>,
  outs: BTreeMap<(String, String), u64>,
  deps: BTreeMap<Vec<String>, u64>,
  codes: BTreeMap<String, u64>,
  texts: BTreeMap<String, u64>,
  /// real source hash -> id of the text it was computed from (learnt when an entry is written)
  real_hash: BTreeMap<u64, u64>,
  keys: BTreeMap<u64, u64>,
  names: BTreeMap<String, u64>,
}

fn intern<K: Ord + Clone>(m: &mut BTreeMap<K, u64>, k: &K, base: u64) -> u64 {
  let n = m.len() as u64 + base;
  *m.entry(k.clone()).or_insert(n)
}

impl Tables {
  fn spec(&mut self, s: &str) -> u64 {
    intern(&mut self.specs, &s.to_string(), 0)
  }
  fn nv(&mut self, s: &str) -> u64 {
    intern(&mut self.nvs, &s.to_string(), 0)
  }
  fn out(&mut self, text: &str, map: &str) -> u64 {
    intern(&mut self.outs, &(text.to_string(), map.to_string()), 1)
  }
  fn code(&mut self, s: &str) -> u64 {
    if s == "cached" { 0 } else { intern(&mut self.codes, &s.to_string(), 1) }
  }
  fn text(&mut self, s: &str) -> u64 {
    intern(&mut self.texts, &s.to_string(), 1)
  }
  fn key(&mut self, k: u64) -> u64 {
    intern(&mut self.keys, &k, 1)
  }
}

/// what one real run showed
struct Observed {
  slots: BTreeMap<String, Slot>,
  /// per emitted module: (keys of the recorded dependencies, specifiers the emitted text declares)
  dep_keys: BTreeMap<String, (Vec<String>, Vec<String>)>,
  skipped: bool,
}

fn declared_specifiers(spec: &ModuleSpecifier, text: &str, media: deno_ast::MediaType) -> Vec<String> {
  let Ok(parsed) = deno_ast::parse_program(deno_ast::ParseParams {
    specifier: spec.clone(),
    text: std::sync::Arc::from(text),
    media_type: media,
    capture_tokens: false,
    scope_analysis: false,
    maybe_syntax: None,
  }) else {
    return vec!["<parse error>".into()];
  };
  let info = deno_graph::ast::ParserModuleAnalyzer::module_info(&parsed);
  let mut out = BTreeSet::new();
  for d in &info.dependencies {
    match d {
      analysis::DependencyDescriptor::Static(s) => {
        out.insert(s.specifier.clone());
      }
      analysis::DependencyDescriptor::Dynamic(_) => {} // "no need to resolve dynamic imports"
    }
  }
  for r in &info.ts_references {
    match r {
      analysis::TypeScriptReference::Path(s) => out.insert(s.text.clone()),
      analysis::TypeScriptReference::Types { specifier, .. } => out.insert(specifier.text.clone()),
    };
  }
  for j in &info.jsdoc_imports {
    out.insert(j.specifier.text.clone());
  }
  if let Some(j) = &info.jsx_import_source {
    out.insert(format!("{}/jsx-runtime", j.text));
  }
  out.into_iter().collect()
}

fn observe(run: &FcRun) -> Observed {
  let mut dep_keys = BTreeMap::new();
  for m in run.graph.modules() {
    if let Module::Js(js) = m {
      if let Some(fc) = js.fast_check_module() {
        let mut rec: Vec<String> = fc.dependencies.keys().cloned().collect();
        rec.sort();
        dep_keys.insert(js.specifier.to_string(), (rec, declared_specifiers(&js.specifier, &fc.source, js.media_type)));
      }
    }
  }
  Observed { slots: slots(&run.graph), dep_keys, skipped: run.skipped }
}

struct PkgAbs {
  nv: String,
  key: u64,
  entry: Vec<String>,
  modules: Vec<(String, u8, Vec<(String, String)>, Option<(String, String)>)>, // spec, outcome tag (0 ok 1 notesm 2 err), diags, out
  deps: Vec<String>,
}

struct WorldAbs {
  /// packages whose dependency set in the multi-package tracer run differs from the set found when
  /// the package is traced alone
  dep_notes: Vec<String>,
  pkgs: Vec<PkgAbs>,
  top: Vec<String>,
  hashes: Vec<(String, String)>, // spec -> text
  js: Vec<String>,
  first: bool,
}

/// abstraction of one world state from the cache-less real run + the tracer hook
fn abstract_world(world: &FcWorld, run: &FcRun, obs: &Observed) -> WorldAbs {
  let graph = &run.graph;
  let mut wa = WorldAbs { dep_notes: vec![], pkgs: vec![], top: vec![], hashes: vec![], js: vec![], first: !world.workspace_fast_check };
  for m in graph.modules() {
    if let Some(src) = m.source() {
      wa.hashes.push((m.specifier().to_string(), src.to_string()));
    }
    if matches!(m, Module::Js(_)) {
      wa.js.push(m.specifier().to_string());
    }
  }
  if run.skipped {
    return wa;
  }
  // top-level packages: referenced from a module outside the registry
  let mut top: BTreeSet<PackageNv> = BTreeSet::new();
  for m in graph.modules() {
    if m.specifier().as_str().starts_with("https://jsr.io/") {
      continue;
    }
    if let Module::Js(js) = m {
      for d in js.dependencies.values() {
        for r in [&d.maybe_code, &d.maybe_type] {
          if let Some(s) = r.maybe_specifier() {
            if let Ok(pr) = deno_semver::jsr::JsrPackageReqReference::from_specifier(s) {
              if let Some(nv) = graph.packages.mappings().get(pr.req()) {
                top.insert(nv.clone());
              }
            }
          }
        }
      }
    }
  }
  let mut pending: VecDeque<PackageNv> = top.iter().cloned().collect();
  if world.workspace_fast_check {
    pending.extend(world.workspace_members.iter().map(|m| m.as_nv()));
  }
  wa.top = pending.iter().map(|n| n.to_string()).collect();
  let root_symbol = deno_graph::symbols::RootSymbol::new(graph, &run.analyzer);
  let provider = DefaultJsrUrlProvider;
  let dump = deno_graph::fast_check::verif_public_ranges(None, &provider, graph, &root_symbol, &world.workspace_members, pending);
  for p in dump.as_array().unwrap() {
    let nv = p["nv"].as_str().unwrap().to_string();
    let entry: Vec<String> = p["entrypoints"].as_array().unwrap().iter().map(|e| e.as_str().unwrap().to_string()).collect();
    let nv_parsed = PackageNv::from_str(&nv).unwrap();
    let entry_set: BTreeSet<ModuleSpecifier> = entry.iter().map(|e| ModuleSpecifier::parse(e).unwrap()).collect();
    let key = FastCheckCacheKey::build("dgverif", &nv_parsed, &entry_set).as_u64();
    // diagnostics the package's entrypoints carry in the cache-less run
    let mut errors: Vec<(String, String)> = vec![];
    for e in &entry {
      if let Some(Slot::Error(ds)) = obs.slots.get(e) {
        errors = ds.clone();
        break;
      }
    }
    let mut modules = vec![];
    for m in p["modules"].as_array().unwrap() {
      let spec = m["specifier"].as_str().unwrap().to_string();
      let ds: Vec<(String, String)> = errors.iter().filter(|(_, s)| *s == spec).cloned().collect();
      let url = ModuleSpecifier::parse(&spec).unwrap();
      let is_js = matches!(graph.get(&url), Some(Module::Js(_)));
      if !ds.is_empty() || m["diagnostics"].as_u64().unwrap_or(0) > 0 {
        // (a module with tracer diagnostics that the run did not report lies behind the first error)
        modules.push((spec, 2, ds, None));
      } else if !is_js {
        modules.push((spec, 1, vec![], None));
      } else {
        let out = match obs.slots.get(&spec) {
          Some(Slot::Module { text, source_map, .. }) => Some((text.clone(), source_map.clone())),
          _ => None,
        };
        // in a failed package the emitted modules are not observable: opaque id 0
        modules.push((spec, 0, vec![], out));
      }
    }
    // The packages this package's traced public API references.  NOT taken from the multi-package
    // run (where what is recorded for one package may depend on what was met earlier through
    // another): the tracer is run once more with this package as the only pending one.
    let combined: BTreeSet<String> = p["dependencies"].as_array().unwrap().iter().map(|d| d.as_str().unwrap().to_string()).collect();
    let alone = deno_graph::fast_check::verif_public_ranges(
      None,
      &provider,
      graph,
      &deno_graph::symbols::RootSymbol::new(graph, &run.analyzer),
      &world.workspace_members,
      VecDeque::from([nv_parsed.clone()]),
    );
    let deps: BTreeSet<String> = alone
      .as_array()
      .unwrap()
      .iter()
      .filter(|q| q["nv"].as_str() == Some(nv.as_str()))
      .flat_map(|q| q["dependencies"].as_array().unwrap().iter().map(|d| d.as_str().unwrap().to_string()).collect::<Vec<_>>())
      .collect();
    if deps != combined {
      wa.dep_notes.push(format!("{}: traced alone references {:?}, in the multi-package run {:?}", nv, deps, combined));
    }
    wa.pkgs.push(PkgAbs { nv, key, entry, modules, deps: deps.into_iter().collect() });
  }
  wa
}

fn world_sx(t: &mut Tables, wa: &WorldAbs) -> Sx {
  let pkgs: Vec<Sx> = wa
    .pkgs
    .iter()
    .map(|p| {
      let mods: Vec<Sx> = p
        .modules
        .iter()
        .map(|(s, tag, ds, out)| {
          let oc = match tag {
            0 => Sx::L(vec![Sx::A(0), Sx::A(out.as_ref().map(|(a, b)| t.out(a, b)).unwrap_or(0))]),
            1 => Sx::L(vec![Sx::A(1)]),
            _ => Sx::L(vec![Sx::A(2), Sx::L(ds.iter().map(|(c, s)| Sx::L(vec![Sx::A(t.code(c)), Sx::A(t.spec(s))])).collect())]),
          };
          Sx::L(vec![Sx::A(t.spec(s)), oc])
        })
        .collect();
      let key = t.key(p.key);
      Sx::L(vec![
        Sx::A(t.nv(&p.nv)),
        Sx::A(key),
        Sx::atoms(p.entry.iter().map(|e| t.spec(e))),
        Sx::L(mods),
        Sx::atoms(p.deps.iter().map(|d| t.nv(d))),
      ])
    })
    .collect();
  Sx::L(vec![
    Sx::L(pkgs),
    Sx::atoms(wa.top.iter().map(|n| t.nv(n))),
    Sx::L(wa.hashes.iter().map(|(s, text)| Sx::L(vec![Sx::A(t.spec(s)), Sx::A(t.text(text))])).collect()),
    Sx::atoms(wa.js.iter().map(|s| t.spec(s))),
    Sx::b(wa.first),
  ])
}

/// slots in the order of `universe`: (spec (0) | (1 out) | (2 diags))
fn slots_sx(t: &mut Tables, universe: &[String], slots: &BTreeMap<String, Slot>, with_deps: bool) -> Sx {
  Sx::L(
    universe
      .iter()
      .map(|s| {
        let v = match slots.get(s) {
          None | Some(Slot::None) => Sx::L(vec![Sx::A(0)]),
          Some(Slot::Module { text, source_map, deps }) => {
            let mut v = vec![Sx::A(1), Sx::A(t.out(text, source_map))];
            if with_deps {
              v.push(Sx::A(intern(&mut t.deps, deps, 1)));
            }
            Sx::L(v)
          }
          Some(Slot::Error(ds)) => Sx::L(vec![Sx::A(2), Sx::L(ds.iter().map(|(c, s)| Sx::L(vec![Sx::A(t.code(c)), Sx::A(t.spec(s))])).collect())]),
        };
        Sx::L(vec![Sx::A(t.spec(s)), v])
      })
      .collect(),
  )
}

fn cache_sx(t: &mut Tables, cache: &MemCache, world: &FcWorld, newly_set: &[u64]) -> Sx {
  let inner = cache.inner.borrow();
  // learn real hash -> text id from the entries written in this step
  for (k, item) in inner.iter() {
    if newly_set.contains(&k.as_u64()) {
      for (spec, it) in &item.modules {
        let h = it.source_hash();
        let id = match world.with_manifests().files.get(spec.as_str()) {
          Some((text, _)) => t.text(text),
          None => 0,
        };
        if h != 0 {
          t.real_hash.insert(h, id);
        }
      }
    }
  }
  let mut entries: Vec<(u64, Sx)> = vec![];
  for (k, item) in inner.iter() {
    let mods: Vec<Sx> = item
      .modules
      .iter()
      .map(|(spec, it)| {
        let h = it.source_hash();
        let hid = if h == 0 { 0 } else { *t.real_hash.get(&h).unwrap_or(&999_999) };
        let v = match it {
          FastCheckCacheModuleItem::Info(i) => Sx::L(vec![Sx::A(0), Sx::A(hid), Sx::A(t.out(&i.text, &i.source_map))]),
          FastCheckCacheModuleItem::Diagnostic(_) => Sx::L(vec![Sx::A(1), Sx::A(hid)]),
        };
        Sx::L(vec![Sx::A(t.spec(spec.as_str())), v])
      })
      .collect();
    let kid = t.key(k.as_u64());
    entries.push((kid, Sx::L(vec![Sx::A(kid), Sx::set(item.dependencies.iter().map(|d| Sx::A(t.nv(&d.to_string()))).collect()), Sx::L(mods)])));
  }
  entries.sort_by_key(|e| e.0);
  Sx::set(entries.into_iter().map(|e| e.1).collect())
}

fn traffic_sx(t: &mut Tables, log: &[CacheEvent]) -> Sx {
  Sx::set(
    log
      .iter()
      .map(|e| match e {
        CacheEvent::GetMiss(k) => Sx::L(vec![Sx::A(0), Sx::A(t.key(*k))]),
        CacheEvent::GetHit(k) => Sx::L(vec![Sx::A(1), Sx::A(t.key(*k))]),
        CacheEvent::Set(k) => Sx::L(vec![Sx::A(2), Sx::A(t.key(*k))]),
      })
      .collect(),
  )
}

// ------------------------------------------------------------------ worlds and edits

/// the F-C12b shape: a diagnostic of an early module caused by a trace that starts in a later one
fn retrace_world(rng: &mut Rng) -> (FcWorld, GenInfo, Forced) {
  let mut w = FcWorld { root: "file:///mod.ts".into(), ..Default::default() };
  w.add("file:///mod.ts", "import \"jsr:@s/p0@1\";\n");
  w.add("https://jsr.io/@s/p0/meta.json", "{\"versions\": { \"1.0.0\": {} } }");
  w.add("https://jsr.io/@s/p0/1.0.0_meta.json", "{ \"exports\": { \".\": \"./mod.ts\" } }");
  let base = "https://jsr.io/@s/p0/1.0.0/";
  w.add(&format!("{}mod.ts", base), "export type { A } from \"./m1.ts\";\n");
  let bad = match rng.below(2) {
    0 => "class K { private p: string = \"\"; }\nexport type B = typeof K.prototype.p;\n",
    _ => "class K { q: number = 1; }\nexport type B = typeof K.prototype.nope;\n",
  };
  w.add(&format!("{}m1.ts", base), &format!("import type {{ X }} from \"./m2.ts\";\nexport type A = X;\n{}", bad));
  w.add(&format!("{}m2.ts", base), "import type { B } from \"./m1.ts\";\nexport type X = B;\n");
  let info = GenInfo {
    pkgs: vec![GenPkg { name: "@s/p0".into(), version: "1.0.0".into(), base: base.into(), exports: vec![(".".into(), "./mod.ts".into())], modules: vec!["mod.ts".into(), "m1.ts".into(), "m2.ts".into()], failing: true }],
    kinds: Default::default(),
  };
  (w, info, (format!("{}m2.ts", base), "export type X = string;\n".into(), "retrace: the later module stops requesting the failing member".into()))
}

/// DIAMONDS: two or three packages whose public API references a common package D (D optionally
/// top-level itself, optionally depending on a further package).  The prescribed edit makes D
/// reachable through fewer referrers: one referrer stops using D, or the root stops importing a
/// referrer or D.  Returns None as the edit when an ordinary random edit is to be used.
fn diamond_world(rng: &mut Rng) -> (FcWorld, GenInfo, Option<Forced>) {
  let n = rng.range(3, 4);
  let d = rng.below(n);
  let chain = n == 4 && rng.chance(60); // D depends on E
  let mut idx: Vec<usize> = (0..n).filter(|i| *i != d).collect();
  let e = if chain { Some(idx.remove(rng.below(idx.len()))) } else { None };
  let referrers = idx;
  let mut w = FcWorld { root: "file:///mod.ts".into(), ..Default::default() };
  let base = |i: usize| format!("https://jsr.io/@s/p{}/1.0.0/", i);
  let mut pkgs = vec![];
  for i in 0..n {
    w.add(&format!("https://jsr.io/@s/p{}/meta.json", i), "{\"versions\": { \"1.0.0\": {} } }");
    w.add(&format!("https://jsr.io/@s/p{}/1.0.0_meta.json", i), "{ \"exports\": { \".\": \"./mod.ts\" } }");
    pkgs.push(GenPkg { name: format!("@s/p{}", i), version: "1.0.0".into(), base: base(i), exports: vec![(".".into(), "./mod.ts".into())], modules: vec!["mod.ts".into()], failing: false });
  }
  let d_text = match e {
    Some(e) => format!("import type {{ ET }} from \"jsr:@s/p{}@1\";\nexport type DT = string | ET;\nexport class DC {{ v: DT = null as any; }}\n", e),
    None => "export type DT = string | number;\nexport class DC { v: DT = null as any; }\n".to_string(),
  };
  w.add(&format!("{}mod.ts", base(d)), &d_text);
  if let Some(e) = e {
    w.add(&format!("{}mod.ts", base(e)), "export type ET = boolean;\nexport interface EI { e: ET; }\n");
  }
  let without_d = |r: usize| format!("export interface R{}I {{ own: string; }}\n", r);
  // the dependency leaves the referrer's PUBLIC API but stays imported (used in a function body only)
  let private_d = |r: usize| format!("import {{ DC }} from \"jsr:@s/p{}@1\";\nfunction priv{}(): unknown {{ return new DC(); }}\nexport interface R{}I {{ own: string; }}\n", d, r, r);
  // sometimes only ONE referrer references D (then nothing else keeps D among the handled packages)
  let solo = rng.chance(35);
  for (ri, r) in referrers.iter().enumerate() {
    let r = *r;
    if solo && ri > 0 {
      w.add(&format!("{}mod.ts", base(r)), &without_d(r));
      continue;
    }
    let uses = match rng.below(5) {
      0 => format!("import type {{ DT }} from \"jsr:@s/p{}@1\";\nexport interface R{}I {{ d: DT; own: string; }}\n", d, r),
      1 => format!("export interface R{}I {{ d: import(\"jsr:@s/p{}@1\").DT; own: string; }}\n", r, d),
      2 => format!("export {{ DC as Re{} }} from \"jsr:@s/p{}@1\";\nexport interface R{}I {{ own: string; }}\n", r, d, r),
      3 => format!("import {{ DC }} from \"jsr:@s/p{}@1\";\nexport class R{}C extends DC {{ own: string = \"\"; }}\nexport interface R{}I {{ own: string; }}\n", d, r, r),
      _ => {
        // through an inner module
        w.add(&format!("{}inner.ts", base(r)), &format!("import type {{ DT }} from \"jsr:@s/p{}@1\";\nexport type Inner{} = DT[];\n", d, r));
        format!("import type {{ Inner{} }} from \"./inner.ts\";\nexport interface R{}I {{ d: Inner{}; own: string; }}\n", r, r, r)
      }
    };
    let bad = if rng.chance(12) { "export function bad() { return Math.random(); }\n" } else { "" };
    w.add(&format!("{}mod.ts", base(r)), &format!("{}{}", uses, bad));
  }
  let d_top = rng.chance(40);
  let mut tops: Vec<usize> = referrers.clone();
  if d_top {
    tops.push(d);
  }
  if let (Some(e), true) = (e, rng.chance(20)) {
    tops.push(e);
  }
  tops.sort();
  let root_of = |tops: &[usize]| tops.iter().map(|i| format!("import \"jsr:@s/p{}@1\";\n", i)).collect::<String>();
  w.add("file:///mod.ts", &root_of(&tops));
  let forced = match rng.below(10) {
    0..=3 => {
      let r = if solo { referrers[0] } else { *rng.pick(&referrers) };
      if rng.chance(50) {
        Some((format!("{}mod.ts", base(r)), private_d(r), format!("diamond: referrer p{} keeps importing the shared dependency p{} but no longer exposes it", r, d)))
      } else {
        Some((format!("{}mod.ts", base(r)), without_d(r), format!("diamond: referrer p{} stops using the shared dependency p{}", r, d)))
      }
    }
    4..=6 => {
      let r = *rng.pick(&referrers);
      let t: Vec<usize> = tops.iter().cloned().filter(|x| *x != r).collect();
      Some(("file:///mod.ts".to_string(), root_of(&t), format!("diamond: root stops importing referrer p{}", r)))
    }
    7..=8 if d_top => {
      let t: Vec<usize> = tops.iter().cloned().filter(|x| *x != d).collect();
      Some(("file:///mod.ts".to_string(), root_of(&t), format!("diamond: root stops importing the shared dependency p{}", d)))
    }
    _ => None,
  };
  (w, GenInfo { pkgs, kinds: Default::default() }, forced)
}

/// the F-C12c shape: p0 re-exports * from p1's entrypoint, which re-exports * from a module with a
/// default export
fn xstar_world(rng: &mut Rng) -> (FcWorld, GenInfo) {
  let mut w = FcWorld { root: "file:///mod.ts".into(), ..Default::default() };
  w.add("file:///mod.ts", "import \"jsr:@s/p0@1\";\nimport \"jsr:@s/p1@1\";\n");
  for p in 0..2 {
    w.add(&format!("https://jsr.io/@s/p{}/meta.json", p), "{\"versions\": { \"1.0.0\": {} } }");
    w.add(&format!("https://jsr.io/@s/p{}/1.0.0_meta.json", p), "{ \"exports\": { \".\": \"./mod.ts\" } }");
  }
  let own = if rng.chance(50) { "export const own0: number = 1;\n" } else { "" };
  w.add("https://jsr.io/@s/p0/1.0.0/mod.ts", &format!("{}export * from \"jsr:@s/p1@1\";\n", own));
  let via = if rng.chance(50) { "m1.ts" } else { "inner.ts" };
  w.add("https://jsr.io/@s/p1/1.0.0/mod.ts", &format!("export * from \"./{}\";\nexport interface Own1 {{ a: string; }}\n", via));
  let dflt = match rng.below(3) {
    0 => "class Dflt { x: number = 1; }\nexport default Dflt;\n",
    1 => "export default function dflt(a: string): string { return a; }\n",
    _ => "interface Shape { s: string; }\nconst value: Shape = { s: \"\" };\nexport default value;\n",
  };
  w.add(&format!("https://jsr.io/@s/p1/1.0.0/{}", via), &format!("export type Named = string;\n{}", dflt));
  let info = GenInfo {
    pkgs: (0..2)
      .map(|p| GenPkg { name: format!("@s/p{}", p), version: "1.0.0".into(), base: format!("https://jsr.io/@s/p{}/1.0.0/", p), exports: vec![(".".into(), "./mod.ts".into())], modules: vec!["mod.ts".into()], failing: false })
      .collect(),
    kinds: Default::default(),
  };
  (w, info)
}

/// a prescribed edit: (url, new text, label)
type Forced = (String, String, String);

fn drop_import_line(root_text: &str, rng: &mut Rng) -> Option<String> {
  let lines: Vec<&str> = root_text.lines().filter(|l| !l.trim().is_empty()).collect();
  let pkg_lines: BTreeSet<String> = lines.iter().filter_map(|l| l.split("jsr:").nth(1)).map(|r| r.split(['@', '"', '/']).take(3).collect::<Vec<_>>().join("/")).collect();
  if pkg_lines.len() < 2 {
    return None;
  }
  // drop every import of one package (all its entrypoints)
  let victim = rng.pick(&pkg_lines.iter().cloned().collect::<Vec<_>>()).clone();
  let kept: Vec<&str> = lines
    .iter()
    .filter(|l| l.split("jsr:").nth(1).map(|r| r.split(['@', '"', '/']).take(3).collect::<Vec<_>>().join("/")) != Some(victim.clone()))
    .cloned()
    .collect();
  Some(format!("{}\n", kept.join("\n")))
}

fn edit_world(rng: &mut Rng, world: &FcWorld, info: &GenInfo, v1: &Observed, forced: Option<&Forced>) -> (FcWorld, String) {
  let mut w = world.clone();
  if let Some((url, text, label)) = forced {
    w.add(url, text);
    return (w, label.clone());
  }
  // (not for workspaces: every member handed to workspace fast check is expected to be in the graph;
  // a member that is not makes ModuleGraph::build_fast_check_type_graph panic at its
  // `module_slots.get_mut(..).unwrap()` - an input outside the driver's contract, noted in the report)
  if !world.workspace_fast_check && rng.chance(12) {
    // the root stops importing one package: its dependencies are then reached through others only
    if let Some(t) = drop_import_line(&world.files[&world.root].0, rng) {
      w.add(&world.root.clone(), &t);
      return (w, "root stops importing a package".into());
    }
  }
  let pkg_files: Vec<String> =
    world.files.keys().filter(|k| (k.starts_with("https://jsr.io/") || k.starts_with("file:///ws/")) && !k.ends_with("meta.json")).cloned().collect();
  if pkg_files.is_empty() {
    w.add(&world.root.clone(), &format!("{}\n// edited\n", world.files[&world.root].0));
    return (w, "root".into());
  }
  let erroring: Vec<String> = v1
    .slots
    .values()
    .filter_map(|s| if let Slot::Error(ds) = s { ds.first().map(|d| d.1.clone()) } else { None })
    .filter(|s| world.files.contains_key(s))
    .collect();
  let entrypoints: Vec<String> = info.pkgs.iter().flat_map(|p| p.exports.iter().map(move |(_, f)| format!("{}{}", p.base, &f[2..]))).collect();
  let untraced: Vec<String> = pkg_files.iter().filter(|f| f.ends_with("/extra.ts")).cloned().collect();
  let kind = rng.below(8);
  let (target, what): (String, &str) = match kind {
    0 if !erroring.is_empty() => (rng.pick(&erroring).clone(), "erroring module: error removed"),
    1 if !erroring.is_empty() => (rng.pick(&erroring).clone(), "erroring module: private edit"),
    2 if !entrypoints.is_empty() => (rng.pick(&entrypoints).clone(), "entrypoint: public declaration added"),
    3 if !untraced.is_empty() => (rng.pick(&untraced).clone(), "untraced module"),
    4 => (rng.pick(&pkg_files).clone(), "public declaration added"),
    5 => (rng.pick(&pkg_files).clone(), "private declaration added"),
    6 => (rng.pick(&pkg_files).clone(), "error introduced"),
    _ => (rng.pick(&pkg_files).clone(), "comment only"),
  };
  let (text, _) = world.files.get(&target).cloned().unwrap_or_default();
  let ambient = target.ends_with(".d.ts");
  let new_text = match what {
    "erroring module: error removed" => text
      .lines()
      .filter(|l| !l.contains("bad") && !l.contains("Bad") && !l.contains("class Hid"))
      .collect::<Vec<_>>()
      .join("\n"),
    "entrypoint: public declaration added" | "public declaration added" => format!("{}\nexport type Added{} = string | number;\n", text, rng.below(1000)),
    "error introduced" if !ambient => format!("{}\nexport function bad{}() {{ return Math.random(); }}\n", text, rng.below(1000)),
    "comment only" => format!("{}\n// edited {}\n", text, rng.below(1000)),
    _ => format!("{}\n{}type Private{} = number;\n", text, if ambient { "declare " } else { "" }, rng.below(1000)),
  };
  w.add(&target, &new_text);
  (w, format!("{} ({})", what, target))
}

fn history_case(name: String, world1: FcWorld, info: GenInfo, forced_edit: Option<Forced>, rng: &mut Rng, mut dist: Vec<(String, u64)>) -> Case {
  let mut t = Tables::default();
  let mut direct = vec![];
  // --- v1, no cache, five times
  let r1 = run_fast_check(&world1, None);
  let o1 = observe(&r1);
  for i in 0..4 {
    let o = observe(&run_fast_check(&world1, None));
    if o.slots != o1.slots {
      direct.push(format!("repeated run {} of the same sources gave different fast-check output", i + 2));
    }
  }
  let (world2, edit) = edit_world(rng, &world1, &info, &o1, forced_edit.as_ref());
  if std::env::var("DGVERIF_TRACE").is_ok() {
    eprintln!("history {} edit {}", name, edit);
    for (k, v) in &world1.files {
      eprintln!("# {}\n{}", k, v.0);
    }
    for (k, v) in world2.files.iter().filter(|(k, v)| world1.files.get(*k).map(|x| &x.0) != Some(&v.0)) {
      eprintln!("# EDITED {}\n{}", k, v.0);
    }
  }
  let r2 = run_fast_check(&world2, None);
  let o2 = observe(&r2);
  let wa1 = abstract_world(&world1, &r1, &o1);
  let wa2 = abstract_world(&world2, &r2, &o2);
  // specifier universe
  let mut universe: BTreeSet<String> = BTreeSet::new();
  for wa in [&wa1, &wa2] {
    for (s, _) in &wa.hashes {
      universe.insert(s.clone());
    }
    for s in &wa.js {
      universe.insert(s.clone());
    }
    for p in &wa.pkgs {
      for e in &p.entry {
        universe.insert(e.clone());
      }
      for m in &p.modules {
        universe.insert(m.0.clone());
      }
    }
  }
  for o in [&o1, &o2] {
    for s in o.slots.keys() {
      universe.insert(s.clone());
    }
  }
  let universe: Vec<String> = universe.into_iter().collect();
  for s in &universe {
    t.spec(s);
  }
  let w1_sx = world_sx(&mut t, &wa1);
  let w2_sx = world_sx(&mut t, &wa2);
  // --- the history with one shared cache
  let cache = MemCache::default();
  let plan: Vec<(usize, bool)> = vec![(0, false), (0, true), (0, true), (1, false), (1, true), (1, true), (0, true), (0, true)];
  let worlds = [&world1, &world2];
  let cold = [&o1, &o2];
  let mut steps_sx = vec![];
  let mut obs_steps = vec![];
  let mut n_hits = 0u64;
  let mut n_sets = 0u64;
  let mut dep_mismatch = vec![];
  let mut differs = vec![];
  let trace = std::env::var("DGVERIF_TRACE").is_ok();
  if trace {
    eprintln!("history {} edit {}", name, edit);
    for (k, v) in &world1.files {
      eprintln!("# {}\n{}", k, v.0);
    }
    for (k, v) in world2.files.iter().filter(|(k, v)| world1.files.get(*k).map(|x| &x.0) != Some(&v.0)) {
      eprintln!("# EDITED {}\n{}", k, v.0);
    }
  }
  for (si, (wi, use_cache)) in plan.iter().enumerate() {
    if trace {
      eprintln!("step {} world {} cache {}", si, wi, use_cache);
    }
    cache.log.borrow_mut().clear();
    let o = if *use_cache {
      observe(&run_fast_check(worlds[*wi], Some(&cache)))
    } else if *wi == 0 {
      observe(&run_fast_check(&world1, None))
    } else {
      observe(&run_fast_check(&world2, None))
    };
    let log: Vec<CacheEvent> = cache.log.borrow().clone();
    n_hits += log.iter().filter(|e| matches!(e, CacheEvent::GetHit(_))).count() as u64;
    n_sets += log.iter().filter(|e| matches!(e, CacheEvent::Set(_))).count() as u64;
    let newly: Vec<u64> = log.iter().filter_map(|e| if let CacheEvent::Set(k) = e { Some(*k) } else { None }).collect();
    let real_slots = slots_sx(&mut t, &universe, &o.slots, true);
    let cold_slots = slots_sx(&mut t, &universe, &cold[*wi].slots, true);
    let dep_keys: Vec<Sx> = o
      .dep_keys
      .iter()
      .map(|(s, (rec, decl))| {
        if rec != decl {
          dep_mismatch.push(json!({"step": si, "module": s, "recorded": rec, "declared": decl}));
        }
        Sx::L(vec![
          Sx::A(t.spec(s)),
          Sx::atoms(rec.iter().map(|k| intern(&mut t.names, k, 0))),
          Sx::atoms(decl.iter().map(|k| intern(&mut t.names, k, 0))),
        ])
      })
      .collect();
    if *use_cache {
      let a: BTreeMap<&String, &Slot> = o.slots.iter().filter(|(_, s)| matches!(s, Slot::Module { .. })).collect();
      let b: BTreeMap<&String, &Slot> = cold[*wi].slots.iter().filter(|(_, s)| matches!(s, Slot::Module { .. })).collect();
      if a != b {
        let detail: Vec<serde_json::Value> = a
          .iter()
          .filter(|(k, v)| b.get(*k).map(|x| x != *v).unwrap_or(false))
          .map(|(k, v)| json!({"module": k, "cached": format!("{:?}", v), "cacheless": format!("{:?}", b[*k])}))
          .take(2)
          .collect();
        differs.push(json!({"step": si, "cached_outputs": a.keys().collect::<Vec<_>>(), "cacheless_outputs": b.keys().collect::<Vec<_>>(), "different": detail}));
      }
    }
    steps_sx.push(Sx::L(vec![Sx::A(*wi as u64), Sx::b(*use_cache), real_slots, cold_slots, Sx::L(dep_keys)]));
    let cache_dump = if *use_cache { cache_sx(&mut t, &cache, worlds[*wi], &newly) } else { Sx::set(vec![]) };
    let n_pk = if *wi == 0 { wa1.pkgs.len() } else { wa2.pkgs.len() };
    obs_steps.push(Sx::L(vec![
      slots_sx(&mut t, &universe, &o.slots, false),
      cache_dump,
      traffic_sx(&mut t, &log),
      Sx::L((0..n_pk).map(|_| Sx::judge(true)).collect()), // all-or-nothing per package
      Sx::judge(true),                                     // same outputs as the cache-less run
      Sx::judge(true),                                     // recorded dependencies = declared
      Sx::judge(true),                                     // (hypothesis check) every valid cache entry agrees with tracing the current sources
    ]));
  }
  let failing1 = o1.slots.values().filter(|s| matches!(s, Slot::Error(_))).count();
  let failing2 = o2.slots.values().filter(|s| matches!(s, Slot::Error(_))).count();
  dist.push(("histories".into(), 1));
  // diamonds: a package referenced by the public API of >= 2 others (or by one and top-level)
  for wa in [&wa1, &wa2] {
    let mut refs: BTreeMap<&String, usize> = BTreeMap::new();
    for p in &wa.pkgs {
      for d in &p.deps {
        *refs.entry(d).or_insert(0) += 1;
      }
    }
    if refs.iter().any(|(d, n)| *n >= 2 || wa.top.contains(*d)) {
      dist.push(("world_states_with_shared_dependency".into(), 1));
    }
    if wa.pkgs.iter().any(|p| !p.deps.is_empty()) {
      dist.push(("world_states_with_package_dependencies".into(), 1));
    }
  }
  let dep_notes: Vec<String> = wa1.dep_notes.iter().chain(wa2.dep_notes.iter()).cloned().collect();
  if !dep_notes.is_empty() {
    dist.push(("dependencies_differ_alone_vs_together".into(), 1));
  }
  dist.push(("steps".into(), plan.len() as u64));
  dist.push(("cache_hits".into(), n_hits));
  dist.push(("cache_sets".into(), n_sets));
  dist.push((format!("packages_{}", wa1.pkgs.len()), 1));
  if failing1 > 0 {
    dist.push(("v1_has_failing_package".into(), 1));
  }
  if (failing1 > 0) != (failing2 > 0) {
    dist.push(("edit_toggles_failure".into(), 1));
  }
  if o1.skipped || o2.skipped {
    dist.push(("graph_errors_no_fast_check".into(), 1));
  }
  dist.push((format!("edit_{}", edit.split(" (").next().unwrap_or("")), 1));
  Case {
    input: Sx::L(vec![Sx::A(20), Sx::L(vec![w1_sx, w2_sx]), Sx::L(steps_sx)]),
    obs: Sx::L(obs_steps),
    meta: json!({"name": name, "edit": edit, "package_dependencies_alone_vs_together": dep_notes, "cached_differs_from_cacheless": differs, "dependency_key_mismatches": dep_mismatch.iter().take(4).collect::<Vec<_>>(),
      "packages": info.pkgs.iter().map(|p| json!({"name": p.name, "modules": p.modules, "exports": p.exports, "failing": p.failing})).collect::<Vec<_>>(),
      "v1": world1.files.iter().filter(|(k, _)| !k.ends_with("meta.json")).map(|(k, v)| (k.clone(), v.0.clone())).collect::<BTreeMap<_, _>>(),
      "edited": world2.files.iter().filter(|(k, v)| world1.files.get(*k).map(|x| &x.0) != Some(&v.0)).map(|(k, v)| (k.clone(), v.0.clone())).collect::<BTreeMap<_, _>>()}),
    nontrivial: n_hits >= 1 && n_sets >= 2,
    dist,
    direct_violations: direct,
  }
}

/// Worlds WITH cross-package `export *`: tracing one package reaches into another, so what the
/// tracer records for a package depends on which other packages were traced in the same run
/// (not modelled).  Judged only: outputs with a (cold / warm / stale) cache = outputs without.
fn relational_case(name: String, world1: FcWorld, info: GenInfo, rng: &mut Rng, mut dist: Vec<(String, u64)>) -> Case {
  let mut t = Tables::default();
  let mut direct = vec![];
  let r1 = run_fast_check(&world1, None);
  let o1 = observe(&r1);
  for i in 0..2 {
    if observe(&run_fast_check(&world1, None)).slots != o1.slots {
      direct.push(format!("repeated run {} of the same sources gave different fast-check output", i + 2));
    }
  }
  let (world2, edit) = edit_world(rng, &world1, &info, &o1, None);
  let r2 = run_fast_check(&world2, None);
  let o2 = observe(&r2);
  // the class is a property of the HISTORY: an entry written while the sources were in the class is
  // replayed later, when they may no longer be
  let class = [cross_package_star_default(&r1.graph), cross_package_star_default(&r2.graph)];
  let mut universe: BTreeSet<String> = BTreeSet::new();
  for o in [&o1, &o2] {
    universe.extend(o.slots.keys().cloned());
  }
  let universe: Vec<String> = universe.into_iter().collect();
  let cache = MemCache::default();
  let plan: Vec<usize> = vec![0, 0, 1, 1, 0];
  let worlds = [&world1, &world2];
  let cold = [&o1, &o2];
  let mut steps = vec![];
  let mut obs = vec![];
  let mut differs = vec![];
  for (si, wi) in plan.iter().enumerate() {
    let o = observe(&run_fast_check(worlds[*wi], Some(&cache)));
    let a: BTreeMap<&String, &Slot> = o.slots.iter().filter(|(_, s)| matches!(s, Slot::Module { .. })).collect();
    let b: BTreeMap<&String, &Slot> = cold[*wi].slots.iter().filter(|(_, s)| matches!(s, Slot::Module { .. })).collect();
    if a != b {
      differs.push(json!({"step": si, "modules": a.iter().filter(|(k, v)| b.get(*k) != Some(*v)).map(|(k, _)| k).collect::<Vec<_>>()}));
    }
    steps.push(Sx::L(vec![Sx::b(class[0] || class[1]), slots_sx(&mut t, &universe, &o.slots, true), slots_sx(&mut t, &universe, &cold[*wi].slots, true)]));
    obs.push(Sx::L(vec![Sx::judge(true)]));
  }
  dist.push(("relational_histories".into(), 1));
  if class[0] || class[1] {
    dist.push(("cross_package_star_default_class".into(), 1));
  }
  Case {
    input: Sx::L(vec![Sx::A(21), Sx::L(steps)]),
    obs: Sx::L(obs),
    meta: json!({"name": name, "edit": edit, "cached_differs_from_cacheless": differs, "class_cross_package_star_default": class,
      "v1": world1.files.iter().filter(|(k, _)| !k.ends_with("meta.json")).map(|(k, v)| (k.clone(), v.0.clone())).collect::<BTreeMap<_, _>>(),
      "edited": world2.files.iter().filter(|(k, v)| world1.files.get(*k).map(|x| &x.0) != Some(&v.0)).map(|(k, v)| (k.clone(), v.0.clone())).collect::<BTreeMap<_, _>>()}),
    nontrivial: o1.slots.values().any(|s| matches!(s, Slot::Module { .. })),
    dist,
    direct_violations: direct,
  }
}

pub fn run(cfg: &RunCfg) {
  let thorough = cfg.tier == Tier::Thorough;
  let corpus: Vec<(String, FcWorld)> = load_corpus().into_iter().filter(|(n, _)| n.contains("fast_check/cache__") || n.contains("workspace_fast_check") || n.contains("fast_check/basic")).collect();
  let n_corpus = corpus.len() as u64;
  let n_gen: u64 = if thorough { 10_000 } else { 400 };
  let n_rel: u64 = if thorough { 4_000 } else { 160 };
  run_cases(cfg, n_corpus + n_gen + n_rel, |seed, k| {
    let mut rng = Rng::for_case(seed, k);
    if k >= n_corpus + n_gen {
      if rng.chance(25) {
        let (world, info) = xstar_world(&mut rng);
        return relational_case(format!("xstar-{}", k), world, info, &mut rng, vec![("xstar_worlds".into(), 1)]);
      }
      let (world, info) = gen_world(&mut rng, &GenCfg { max_pkgs: 4, fail_pct: 20, cross_pkg_star: true, workspace: false });
      return relational_case(format!("rel-{}", k), world, info, &mut rng, vec![]);
    }
    if k < n_corpus {
      let (name, world) = &corpus[k as usize];
      history_case(name.clone(), world.clone(), GenInfo::default(), None, &mut rng, vec![("corpus_specs".into(), 1)])
    } else if rng.chance(12) {
      let (w, info, forced) = retrace_world(&mut rng);
      history_case(format!("retrace-{}", k), w, info, Some(forced), &mut rng, vec![("retrace_worlds".into(), 1)])
    } else if rng.chance(20) {
      let (w, info, forced) = diamond_world(&mut rng);
      history_case(format!("diamond-{}", k), w, info, forced, &mut rng, vec![("diamond_worlds".into(), 1)])
    } else {
      let workspace = rng.chance(25);
      let (mut world, info) = gen_world(&mut rng, &GenCfg { max_pkgs: 4, fail_pct: if workspace { 60 } else { 35 }, cross_pkg_star: false, workspace });
      // a module that is in the graph but never traced (side-effect import only)
      if let Some(p) = info.pkgs.first() {
        let entry = format!("{}mod.ts", p.base);
        if let Some((text, _)) = world.files.get(&entry).cloned() {
          if rng.chance(50) {
            world.add(&entry, &format!("import \"./extra.ts\";\n{}", text));
            world.add(&format!("{}extra.ts", p.base), "console.log(1);\n");
          }
        }
      }
      let mut dist = vec![("generated_worlds".to_string(), 1)];
      if workspace {
        dist.push(("generated_workspace_worlds".into(), 1));
      }
      history_case(format!("gen-{}", k), world, info, None, &mut rng, dist)
    }
  });
}
