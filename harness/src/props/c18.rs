//! C18: a graph segment is self-contained and equals a direct build of its roots.
use crate::abs::*;
use crate::build::*;
use crate::common::*;
use crate::props::c17::describe_world;
use crate::rng::Rng;
use crate::sexp::Sx;
use crate::world::*;
use deno_graph::*;

pub fn gen_case(seed: u64, k: u64, tier: Tier) -> Case {
  let mut rng = Rng::for_case(seed, k);
  let cfg = GenCfg { assets: false, max_modules: if tier == Tier::Quick { 7 } else { 10 }, redirects: true, faults: true, same_attr_proviso: true };
  let (world, roots) = gen_world(&mut rng, &cfg);
  // a root is a request without attribute: under the proviso it must not be a json-attribute target
  let roots: Vec<String> = {
    let r: Vec<String> = roots.iter().filter(|r| !attr_json_target(r)).cloned().collect();
    if r.is_empty() { vec!["https://h.test/nowhere.ts".to_string()] } else { r }
  };
  let mut bcfg = BuildCfg { kind: *rng.pick(&[0u8, 0, 1, 2]), ..Default::default() };
  let world_specs: Vec<String> = world.entries.keys().cloned().collect();
  // configured imports are type imports: only given to graphs that include types (a code-only
  // build loads them all the same while a code-only walk never reaches them; DESIGN.md, observations)
  if bcfg.kind != 1 && rng.chance(20) {
    let plain: Vec<String> = world_specs.iter().filter(|s| !attr_json_target(s)).cloned().collect();
    if !plain.is_empty() {
      bcfg.imports.push(("file:///p/deno.json".to_string(), vec![rng.pick(&plain).clone()]));
    }
  }
  let g = new_graph(&world, &roots, &bcfg);
  // segment roots: 1-2 specifiers among the graph's modules (sometimes the original roots)
  let mods: Vec<String> =
    g.modules().map(|m| m.specifier().to_string()).filter(|s| !attr_json_target(s)).collect();
  let mut seg_roots: Vec<String> = vec![];
  if rng.chance(12) || mods.is_empty() {
    seg_roots = roots.clone();
  } else {
    for _ in 0..rng.range(1, 2) {
      let r = rng.pick(&mods).clone();
      if !seg_roots.contains(&r) {
        seg_roots.push(r);
      }
    }
  }
  let seg_urls: Vec<ModuleSpecifier> = seg_roots.iter().map(|r| ModuleSpecifier::parse(r).unwrap()).collect();
  let seg = g.segment(&seg_urls);
  let direct = new_graph(&world, &seg_roots, &bcfg);
  if std::env::var("DGVERIF_DEBUG").is_ok() {
    let loader = WorldLoader::new(&world);
    let mut g2 = ModuleGraph::new(graph_kind(bcfg.kind));
    build_with_loader(&mut g2, &loader, &seg_roots, &bcfg);
    eprintln!("direct build loader log: {:?}", loader.log.borrow());
    eprintln!("roots {:?}", g2.roots);
  }
  let applicable = !seg_roots.iter().all(|r| roots.contains(r));
  let mut it = build_intern_multi(&[&g, &seg, &direct], &world_specs);
  let gs = abs_graph(&g, &mut it);
  let ss = abs_graph(&seg, &mut it);
  let ds = abs_graph(&direct, &mut it);
  let proj = abs_graph_proj(&seg, &mut it);
  let n = g.specifiers_count();
  let ns = seg.specifiers_count();
  Case {
    input: Sx::L(vec![
      gs,
      Sx::atoms(seg_roots.iter().map(|r| it.spec(r))),
      ss,
      ds,
      Sx::b(applicable),
    ]),
    obs: Sx::L(vec![Sx::L(vec![proj]), Sx::L(vec![Sx::judge(true)]), Sx::L(vec![Sx::judge(true)])]),
    meta: serde_json::json!({"roots": roots, "segment_roots": seg_roots, "build": format!("{:?}", bcfg),
      "world": describe_world(&world), "original": serde_json::to_value(&g).unwrap(),
      "segment": serde_json::to_value(&seg).unwrap(), "direct": serde_json::to_value(&direct).unwrap()}),
    nontrivial: applicable && ns >= 2 && ns < n,
    dist: vec![
      (format!("graph_kind_{}", bcfg.kind), 1),
      (format!("entries_{:02}", n.min(15)), 1),
      (format!("segment_entries_{:02}", ns.min(15)), 1),
      (if applicable { "direct_build_compared".to_string() } else { "clone_shortcut".to_string() }, 1),
    ],
    direct_violations: vec![],
  }
}

pub fn run(cfg: &RunCfg) {
  let n = if cfg.tier == Tier::Quick { 3000 } else { 60000 };
  let tier = cfg.tier;
  run_cases(cfg, n, |seed, k| gen_case(seed, k, tier));
}
