//! C03: builds terminate with every reachable specifier settled under any faults.
//! Fault enumeration: every assignment of a response kind to every specifier of
//! small base worlds (exhaustive), sampled larger worlds. Per case: the real
//! build under catch_unwind, serialised graph free of INTERNAL ERROR, no pending
//! entry, error entries stored under their own specifier, the builder model's
//! graph (same as C01), and fault locality against the fault-free build.
use crate::abs::*;
use crate::absworld::*;
use crate::build::*;
use crate::common::*;
use crate::props::c01::*;
use crate::props::c17::describe_world;
use crate::rng::Rng;
use crate::sexp::Sx;
use crate::world::*;
use deno_graph::*;
use std::collections::BTreeSet;

/// Base worlds: (specifiers, sources as import lists by index)
fn base_world(b: usize) -> (Vec<String>, Vec<Vec<(Form, usize)>>) {
  let specs: Vec<String> = match b {
    0 => vec!["https://h.test/a.ts", "https://h.test/b.ts", "https://h.test/c.js", "https://h.test/d.ts"],
    1 => vec!["file:///p/a.ts", "https://h.test/b.js", "https://h.test/c.d.ts", "http://h.test/d.ts"],
    _ => vec!["https://h.test/a.tsx", "https://h.test/b.json", "https://h.test/c.ts", "https://h.test/d.mjs"],
  }
  .into_iter()
  .map(String::from)
  .collect();
  let imports = match b {
    0 => vec![
      vec![(Form::Static, 1), (Form::Dynamic, 2)],
      vec![(Form::Static, 3), (Form::TypeOnly, 2)],
      vec![(Form::Static, 3)],
      vec![],
    ],
    1 => vec![
      vec![(Form::Static, 1), (Form::DenoTypes("https://h.test/c.d.ts".into()), 1)],
      vec![(Form::Dynamic, 3), (Form::Static, 0)],
      vec![(Form::Static, 3)],
      vec![(Form::ExportStar, 1)],
    ],
    _ => vec![
      vec![(Form::JsonAttr, 1), (Form::Static, 2), (Form::Dynamic, 3)],
      vec![],
      vec![(Form::Static, 3), (Form::RefTypes, 0)],
      vec![(Form::Dynamic, 0)],
    ],
  };
  (specs, imports)
}

/// response kinds per specifier: 0 module, 1 missing, 2 load error, 3 external,
/// 4 unparsable module, 5 self redirect, 6.. redirect to specifier (k-6) (skipping itself)
fn n_kinds(n: usize) -> usize {
  6 + (n - 1)
}

fn make_world(b: usize, assign: &[usize]) -> (World, Vec<String>) {
  let (specs, imports) = base_world(b);
  let mut world = World::default();
  for (i, s) in specs.iter().enumerate() {
    let mut src = ModSrc::default();
    for (f, t) in &imports[i] {
      src.imports.push(Imp { form: f.clone(), text: specs[*t].clone() });
    }
    let raw = if s.ends_with(".json") { Some(b"{}".to_vec()) } else { None };
    let e = match assign[i] {
      0 => Entry::Module { src, raw, headers: None },
      1 => Entry::Missing,
      2 => Entry::Error,
      3 => Entry::External,
      4 => {
        src.broken = true;
        Entry::Module { src, raw: None, headers: None }
      }
      5 => Entry::Redirect(s.clone()),
      k => {
        let others: Vec<&String> = specs.iter().filter(|x| *x != s).collect();
        Entry::Redirect(others[k - 6].clone())
      }
    };
    world.entries.insert(s.clone(), e);
  }
  (world, vec![specs[0].clone()])
}

fn exhaustive_count(b: usize) -> u64 {
  let n = base_world(b).0.len();
  (n_kinds(n) as u64).pow(n as u32)
}

pub fn quick_exhaustive_bases() -> usize {
  1
}

/// Real-code checks on one build. Returns direct violations.
fn check_graph(graph: &ModuleGraph) -> Vec<String> {
  let mut out = vec![];
  let json = serde_json::to_string(graph).unwrap();
  if json.contains("[INTERNAL ERROR]") {
    out.push("serialised graph reports an internal error (a pending module load never completed)".to_string());
  }
  if !pending_specs(graph).is_empty() {
    out.push(format!("entries left pending: {:?}", pending_specs(graph)));
  }
  for (s, e) in entries(graph) {
    if let Err(err) = e {
      if err.specifier() != s {
        out.push(format!("error for {} stored under {}", err.specifier(), s));
      }
    }
  }
  out
}

/// specifiers whose transitive dependencies (all kinds, through redirects) in g include any of `faulted`
fn depends_on(g: &ModuleGraph, faulted: &BTreeSet<String>) -> BTreeSet<String> {
  // reverse reachability by fixpoint
  let mut affected: BTreeSet<String> = faulted.clone();
  loop {
    let mut changed = false;
    for (a, b) in &g.redirects {
      if affected.contains(b.as_str()) && affected.insert(a.to_string()) {
        changed = true;
      }
    }
    for m in g.modules() {
      let mut hit = false;
      let mut targets: Vec<String> = vec![];
      for d in m.dependencies().values() {
        for r in [&d.maybe_code, &d.maybe_type] {
          if let Some(s) = r.maybe_specifier() {
            targets.push(s.to_string());
          }
        }
      }
      if let Some(js) = m.js() {
        if let Some(td) = &js.maybe_types_dependency {
          if let Some(s) = td.dependency.maybe_specifier() {
            targets.push(s.to_string());
          }
        }
      }
      for t in targets {
        if affected.contains(&t) {
          hit = true;
        }
      }
      if hit && affected.insert(m.specifier().to_string()) {
        changed = true;
      }
    }
    if !changed {
      break;
    }
  }
  affected
}

pub fn gen_case(seed: u64, k: u64, tier: Tier) -> Case {
  let n_bases = if tier == Tier::Quick { quick_exhaustive_bases() } else { 3 };
  let mut offset = 0u64;
  let mut exhaustive: Option<(usize, u64)> = None;
  for b in 0..n_bases {
    let c = exhaustive_count(b);
    if k < offset + c {
      exhaustive = Some((b, k - offset));
      break;
    }
    offset += c;
  }
  let mut rng = Rng::for_case(seed, k);
  let (c, faulted, descr): (BuiltCase, BTreeSet<String>, String) = match exhaustive {
    Some((b, mut idx)) => {
      let (specs, _) = base_world(b);
      let n = specs.len();
      let nk = n_kinds(n) as u64;
      let mut assign = vec![];
      for _ in 0..n {
        assign.push((idx % nk) as usize);
        idx /= nk;
      }
      let (world, roots) = make_world(b, &assign);
      let faulted: BTreeSet<String> = specs.iter().enumerate().filter(|(i, _)| assign[*i] != 0).map(|(_, s)| s.clone()).collect();
      let kind = (k % 3) as u8;
      (
        BuiltCase { lock: None, world, roots, bcfg: BuildCfg { kind, ..Default::default() }, unstable: (false, false, false), max_redirects: 10 },
        faulted,
        format!("exhaustive base {} assignment {:?}", b, assign),
      )
    }
    None => {
      let c = gen_build_case(&mut rng, tier);
      let faulted: BTreeSet<String> = c.world.entries.iter().filter(|(_, e)| !matches!(e, Entry::Module { src, .. } if !src.broken)).map(|(s, _)| s.clone()).collect();
      (c, faulted, "sampled".to_string())
    }
  };
  let mut direct = vec![];
  let mut graph = ModuleGraph::new(graph_kind(c.bcfg.kind));
  let res = std::panic::catch_unwind(std::panic::AssertUnwindSafe(|| real_build(&c, &mut graph, &c.roots, &c.bcfg.imports)));
  let log = match res {
    Ok(l) => l,
    Err(p) => {
      let msg = p.downcast_ref::<String>().cloned().or_else(|| p.downcast_ref::<&str>().map(|s| s.to_string())).unwrap_or_default();
      direct.push(format!("the build panicked: {}", msg));
      vec![]
    }
  };
  direct.extend(check_graph(&graph));
  // every error entry carries a referrer unless it is a root (or configured import target reached as root)
  for e in graph.module_errors() {
    if e.maybe_referrer().is_none()
      && !c.roots.contains(&e.specifier().to_string())
      && !matches!(e.as_kind(), ModuleErrorKind::Parse { .. } | ModuleErrorKind::WasmParse { .. })
      && !graph.redirects.iter().any(|(a, b)| b == e.specifier() && c.roots.contains(&a.to_string()))
    {
      // tolerated only when reached from a root through redirects (checked above) - otherwise report
      let via_root_chain = {
        // follow redirects from roots
        let mut cur: Vec<String> = c.roots.clone();
        let mut seen = BTreeSet::new();
        let mut hit = false;
        while let Some(x) = cur.pop() {
          if !seen.insert(x.clone()) {
            continue;
          }
          if &x == e.specifier().as_str() {
            hit = true;
          }
          if let Ok(u) = ModuleSpecifier::parse(&x) {
            if let Some(t) = graph.redirects.get(&u) {
              cur.push(t.to_string());
            }
          }
        }
        hit
      };
      if !via_root_chain {
        direct.push(format!("error entry for {} carries no referrer although it is not a root", e.specifier()));
      }
    }
  }
  // fault locality: modules not depending on a faulted specifier are loaded exactly as without the fault
  // (worlds where a module is answered under another final specifier are left out: which answer ends
  // up as "the entry of X" then depends on the order of the loads, which removing a fault changes)
  if !faulted.is_empty() && direct.is_empty() && c.world.final_specifiers.is_empty() {
    let mut clean = c.world.clone();
    // the fault-free world: every faulted specifier answers with a plain empty module
    for f in &faulted {
      clean.entries.insert(f.clone(), Entry::Module { src: ModSrc::default(), raw: if f.ends_with(".json") { Some(b"{}".to_vec()) } else { None }, headers: None });
    }
    // but keep the faulty world's sources for non-faulted modules, so compare only modules present in both
    let mut g0 = ModuleGraph::new(graph_kind(c.bcfg.kind));
    let c0 = BuiltCase { lock: None, world: clean, roots: c.roots.clone(), bcfg: c.bcfg.clone(), unstable: c.unstable, max_redirects: c.max_redirects };
    let _ = real_build(&c0, &mut g0, &c0.roots, &c0.bcfg.imports);
    let affected = depends_on(&graph, &faulted);
    for m in graph.modules() {
      let s = m.specifier().to_string();
      if affected.contains(&s) {
        continue;
      }
      if let Some(m0) = g0.get(m.specifier()) {
        let a = serde_json::to_string(m).unwrap();
        let b = serde_json::to_string(m0).unwrap();
        if a != b {
          direct.push(format!("module {} does not depend on a faulted specifier but differs from the fault-free build", s));
        }
      }
    }
  }
  let (parsed, strings) = parse_world(&c);
  let mut it = build_intern_multi(&[&graph], &strings);
  let w = abs_world(&c.world, &parsed, c.max_redirects, &mut it);
  let imps = abs_imports(&graph, &mut it);
  let obs = abs_bgraph(&graph, &log, &mut it);
  let n_err = graph.module_errors().count();
  Case {
    input: Sx::L(vec![w, opts_sx(&c), Sx::atoms(c.roots.iter().map(|r| it.spec(r))), imps]),
    obs: Sx::L(vec![obs]),
    meta: serde_json::json!({"what": descr, "roots": c.roots, "build": format!("{:?}", c.bcfg), "max_redirects": c.max_redirects,
      "world": describe_world(&c.world), "graph": serde_json::to_value(&graph).unwrap()}),
    nontrivial: n_err >= 1 && graph.modules().count() >= 1,
    dist: vec![
      (if exhaustive.is_some() { "exhaustive_assignment".into() } else { "sampled_world".into() }, 1),
      (format!("faulted_specifiers_{}", faulted.len().min(6)), 1),
      (format!("error_entries_{}", n_err.min(6)), 1),
    ],
    direct_violations: direct,
  }
}

pub fn run(cfg: &RunCfg) {
  let n_bases = if cfg.tier == Tier::Quick { quick_exhaustive_bases() } else { 3 };
  let ex: u64 = (0..n_bases).map(exhaustive_count).sum();
  let n = ex + if cfg.tier == Tier::Quick { 2000 } else { 40000 };
  // registry (stage B2) worlds with faults in package documents, version manifests, cache-only
  // probes, content loads and package files
  let nj = if cfg.tier == Tier::Quick { 3000 } else { 60000 };
  let tier = cfg.tier;
  run_cases(cfg, n + nj, |seed, k| {
    if k < n { gen_case(seed, k, tier) } else { crate::props::jsr::gen_case(seed, k - n, crate::props::jsr::Flavour::Faults) }
  });
}
