//! C06 (selection-function level): JSR requirements resolve to the specified version.
//!
//! Direct calls to the public `deno_graph::packages` API:
//!   JsrVersionResolver::get_for_package(..).resolve_version(..)   (kinds 0, 1)
//!   NewestDependencyDateOptions::get_for_package                  (kind 2)
//!   resolve_version (free function)                               (kind 3)
//! Versions are interned to ids (index in the case's universe, identity = Eq),
//! `Version::cmp` enters the model as a dense rank, `VersionReq::matches` as a
//! matrix, dates as seconds relative to T0. The registry info is handed to the
//! model in the iteration order of the REAL HashMap.
use crate::common::*;
use crate::rng::Rng;
use crate::sexp::Sx;
use deno_graph::packages::*;
use deno_semver::package::{PackageName, PackageReq};
use deno_semver::{Version, VersionReq};
use std::cmp::Ordering;
use std::collections::{BTreeMap, HashMap, HashSet};

const T0: i64 = 1_735_689_600; // 2025-01-01T00:00:00Z
const PKG: &str = "@scope/pkg";

fn date(off: u64) -> chrono::DateTime<chrono::Utc> {
  chrono::DateTime::from_timestamp(T0 + off as i64, 0).unwrap()
}
fn undate(d: chrono::DateTime<chrono::Utc>) -> u64 {
  (d.timestamp() - T0) as u64
}

fn parse_req(s: &str) -> VersionReq {
  VersionReq::parse_from_specifier(s)
    .or_else(|_| VersionReq::parse_from_npm(s).map_err(|_| ()))
    .unwrap_or_else(|_| panic!("bad requirement {}", s))
}

/// The versions / requirements of one case and the data the model needs about them.
struct Universe {
  vs: Vec<Version>,
  texts: Vec<String>,
  reqs: Vec<VersionReq>,
  req_texts: Vec<String>,
  ranks: Vec<u64>,
  mm: Vec<Vec<bool>>,
  /// problems with the data assumptions (cmp not a total preorder)
  problems: Vec<String>,
}

impl Universe {
  fn new(vtexts: &[&str], rtexts: &[&str]) -> Universe {
    let vs: Vec<Version> = vtexts.iter().map(|t| Version::parse_standard(t).unwrap()).collect();
    let reqs: Vec<VersionReq> = rtexts.iter().map(|t| parse_req(t)).collect();
    // dense rank under the real Version::cmp
    let mut idx: Vec<usize> = (0..vs.len()).collect();
    idx.sort_by(|a, b| vs[*a].cmp(&vs[*b]));
    let mut ranks = vec![0u64; vs.len()];
    let mut r = 0u64;
    for w in 0..idx.len() {
      if w > 0 && vs[idx[w - 1]].cmp(&vs[idx[w]]) != Ordering::Equal {
        r += 1;
      }
      ranks[idx[w]] = r;
    }
    let mut problems = vec![];
    for a in 0..vs.len() {
      for b in 0..vs.len() {
        if vs[a].cmp(&vs[b]) != ranks[a].cmp(&ranks[b]) {
          problems.push(format!("Version::cmp is not a total preorder on {} / {}", vtexts[a], vtexts[b]));
        }
      }
    }
    let mm = reqs.iter().map(|q| vs.iter().map(|v| q.matches(v)).collect()).collect();
    Universe {
      vs,
      texts: vtexts.iter().map(|s| s.to_string()).collect(),
      reqs,
      req_texts: rtexts.iter().map(|s| s.to_string()).collect(),
      ranks,
      mm,
      problems,
    }
  }
  fn id_of(&self, v: &Version) -> Option<u64> {
    self.vs.iter().position(|x| x == v).map(|p| p as u64)
  }
  fn ranks_sx(&self) -> Sx {
    Sx::atoms(self.ranks.iter().cloned())
  }
  fn mm_sx(&self) -> Sx {
    Sx::L(self.mm.iter().map(|row| Sx::L(row.iter().map(|b| Sx::b(*b)).collect())).collect())
  }
  fn distinct_ranks(&self, ids: &[usize]) -> bool {
    for a in ids {
      for b in ids {
        if a != b && self.vs[*a].cmp(&self.vs[*b]) == Ordering::Equal {
          return false;
        }
      }
    }
    true
  }
  fn json(&self) -> serde_json::Value {
    serde_json::json!({"versions": self.texts, "requirements": self.req_texts, "ranks": self.ranks})
  }
}

const U5: [&str; 5] = ["0.9.0", "1.0.0", "1.1.0", "2.0.0-beta.1", "2.0.0"];
const R6: [&str; 6] = ["*", "^1", "~1.0", "1.1.0", ">=2.0.0-0", "^3"];
/// wider universe for the sampled streams; contains versions that differ in
/// build metadata only (Equal under cmp, different under Eq/Hash)
const UX: [&str; 12] = [
  "0.0.1", "0.9.0", "1.0.0", "1.0.0+a", "1.0.0+b", "1.0.1", "1.1.0", "1.1.0+x", "2.0.0-beta.1", "2.0.0-beta.1+b",
  "2.0.0", "3.1.4",
];
const RX: [&str; 10] = ["*", "^1", "~1.0", "1.1.0", ">=2.0.0-0", "^3", "1.0.0", "<1", "^2.0.0-beta", ">=1.0.1 <3"];

/// (version index, yanked, created offset)
type Entry = (usize, bool, Option<u64>);

/// Builds the real registry info; retries with fresh RandomStates until the
/// HashMap iterates in the wanted order (so that the case is a function of
/// the seed). Returns the info and its actual iteration order.
fn build_info(u: &Universe, entries: &[Entry], want: &[usize]) -> (JsrPackageInfo, Vec<Entry>, bool) {
  let mut last = None;
  let cap = match entries.len() {
    0..=1 => 1,
    2 => 64,
    3 => 400,
    4 => 1500,
    _ => 6000,
  };
  for _ in 0..cap {
    let mut versions: HashMap<Version, JsrPackageInfoVersion> = HashMap::new();
    for (vi, y, c) in entries {
      versions.insert(u.vs[*vi].clone(), JsrPackageInfoVersion { created_at: c.map(date), yanked: *y });
    }
    let info = JsrPackageInfo { versions, latest: None };
    let order: Vec<usize> = info.versions.keys().map(|v| u.id_of(v).unwrap() as usize).collect();
    let hit = order == want;
    last = Some((info, order));
    if hit {
      break;
    }
  }
  let (info, order) = last.unwrap();
  let hit = order == want;
  let by_id: HashMap<usize, Entry> = entries.iter().map(|e| (e.0, *e)).collect();
  let ordered = order.iter().map(|i| by_id[i]).collect();
  (info, ordered, hit)
}

fn info_sx(ordered: &[Entry]) -> Sx {
  Sx::L(
    ordered
      .iter()
      .map(|(vi, y, c)| Sx::L(vec![Sx::A(*vi as u64), Sx::b(*y), Sx::opt(c.map(Sx::A))]))
      .collect(),
  )
}

#[derive(Clone, Debug)]
struct Opts {
  date: Option<u64>,
  exclude: Vec<String>,
  prefixes: Vec<String>,
}

impl Opts {
  fn real(&self) -> NewestDependencyDateOptions {
    NewestDependencyDateOptions {
      date: self.date.map(|d| NewestDependencyDate(date(d))),
      exclude_jsr_pkgs: self.exclude.iter().map(|s| PackageName::from_str(s)).collect(),
      exclude_jsr_pkg_prefixes: self.prefixes.iter().map(|s| PackageName::from_str(s)).collect(),
    }
  }
  fn sx(&self) -> Sx {
    Sx::L(vec![
      Sx::opt(self.date.map(Sx::A)),
      Sx::L(self.exclude.iter().map(|s| str_sx(s)).collect()),
      Sx::L(self.prefixes.iter().map(|s| str_sx(s)).collect()),
    ])
  }
  fn json(&self) -> serde_json::Value {
    serde_json::json!({"date": self.date, "exclude": self.exclude, "prefixes": self.prefixes})
  }
}

fn str_sx(s: &str) -> Sx {
  Sx::atoms(s.bytes().map(|b| b as u64))
}

/// option sets around the package name PKG; `variant` picks among equivalent ones
fn opts_variant(kind: usize, variant: usize, cutoff: u64) -> Opts {
  match (kind, variant % 2) {
    // no date configured
    (0, 0) => Opts { date: None, exclude: vec![], prefixes: vec![] },
    (0, _) => Opts { date: None, exclude: vec![PKG.into()], prefixes: vec!["@scope/".into()] },
    // date in force
    (1, 0) => Opts { date: Some(cutoff), exclude: vec![], prefixes: vec![] },
    (1, _) => Opts {
      date: Some(cutoff),
      exclude: vec!["@scope/pk".into(), "@scope/pkg2".into(), "scope/pkg".into()],
      prefixes: vec!["scope/".into(), "@scope/pkg/".into(), "pkg".into()],
    },
    // date configured, package excluded
    (_, 0) => Opts { date: Some(cutoff), exclude: vec!["@other/x".into(), PKG.into()], prefixes: vec![] },
    (_, _) => Opts { date: Some(cutoff), exclude: vec![], prefixes: vec!["@other/".into(), "@scope/".into()] },
  }
}

#[derive(Clone, Debug, PartialEq, Eq)]
enum Outcome {
  Ok(u64, bool),
  Err(Option<u64>),
}

impl Outcome {
  fn sx(&self) -> Sx {
    match self {
      Outcome::Ok(v, y) => Sx::L(vec![Sx::A(1), Sx::A(*v), Sx::b(*y)]),
      Outcome::Err(f) => Sx::L(vec![Sx::A(0), Sx::opt(f.map(Sx::A))]),
    }
  }
  fn class(&self) -> &'static str {
    match self {
      Outcome::Ok(_, false) => "out_ok_unyanked",
      Outcome::Ok(_, true) => "out_ok_yanked",
      Outcome::Err(Some(_)) => "out_err_dated",
      Outcome::Err(None) => "out_err_plain",
    }
  }
}

/// One call of the real resolver.
fn real_resolve(
  u: &Universe,
  resolver: &JsrVersionResolver,
  name: &PackageName,
  info: &JsrPackageInfo,
  req: &PackageReq,
  existing: &[usize],
  cached: &HashSet<Version>,
  check_text: bool,
  direct: &mut Vec<String>,
) -> Outcome {
  let pr = resolver.get_for_package(name, info);
  let ex: Vec<&Version> = existing.iter().map(|i| &u.vs[*i]).collect();
  match pr.resolve_version(req, ex.into_iter(), cached) {
    Ok(r) => match u.id_of(r.version) {
      Some(id) => Outcome::Ok(id, r.is_yanked),
      None => {
        direct.push(format!("resolved to a version that was never supplied: {}", r.version));
        Outcome::Ok(999_999, r.is_yanked)
      }
    },
    Err(e) => {
      if check_text {
        if e.req != *req {
          direct.push("not-found error names another requirement".to_string());
        }
        let says = e.to_string().contains("A newer matching version was found");
        if says != e.newest_dependency_date.is_some() {
          direct.push("date sentence of the not-found error disagrees with its newest_dependency_date field".to_string());
        }
      }
      Outcome::Err(e.newest_dependency_date.map(|d| undate(d.0)))
    }
  }
}

fn subset_of(mask: usize, n: usize) -> Vec<usize> {
  (0..n).filter(|i| mask >> i & 1 == 1).collect()
}

fn random_perm(rng: &mut Rng, ids: &[usize]) -> Vec<usize> {
  let mut p = ids.to_vec();
  rng.shuffle(&mut p);
  p
}

// ------------------------------------------------------------------ kind 0

/// The exhaustive domain: every subset of <= 3 of the 5 versions, every
/// (yanked x created in {none, before, at, after the cutoff}) assignment.
fn exhaustive_infos() -> Vec<Vec<Entry>> {
  const CUT: u64 = 1000;
  let dates = [None, Some(CUT - 1), Some(CUT), Some(CUT + 1)];
  let mut out = vec![];
  for mask in 0..32usize {
    let s = subset_of(mask, 5);
    if s.len() > 3 {
      continue;
    }
    let states = 8usize.pow(s.len() as u32);
    for code in 0..states {
      let mut c = code;
      let mut entries = vec![];
      for vi in &s {
        let st = c % 8;
        c /= 8;
        entries.push((*vi, st & 1 == 1, dates[st >> 1]));
      }
      out.push(entries);
    }
  }
  out
}

fn random_entries(rng: &mut Rng, nuniv: usize, lo: usize, hi: usize, date_span: u64) -> Vec<Entry> {
  let n = rng.range(lo, hi.min(nuniv));
  let mut ids: Vec<usize> = (0..nuniv).collect();
  rng.shuffle(&mut ids);
  ids.truncate(n);
  ids.sort();
  ids
    .into_iter()
    .map(|vi| {
      let c = if rng.chance(25) { None } else { Some(1000 - date_span / 2 + rng.below(date_span as usize + 1) as u64) };
      (vi, rng.chance(35), c)
    })
    .collect()
}

fn random_subset(rng: &mut Rng, n: usize, max: usize) -> Vec<usize> {
  let k = rng.range(1, max.min(n));
  let mut ids: Vec<usize> = (0..n).collect();
  rng.shuffle(&mut ids);
  ids.truncate(k);
  ids
}

fn product_case(
  rng: &mut Rng,
  u: &Universe,
  entries: &[Entry],
  full: bool,
  stream: &str,
) -> Case {
  let mut direct = u.problems.clone();
  let ids: Vec<usize> = entries.iter().map(|e| e.0).collect();
  let want = random_perm(rng, &ids);
  let (info, ordered, hit) = build_info(u, entries, &want);
  let name = PackageName::from_str(PKG);
  let variant = rng.below(2);
  let opts: Vec<Opts> = (0..3).map(|k| opts_variant(k, variant + k, 1000)).collect();
  let n = u.vs.len();
  // existing: subsets of the whole universe (lockfile seeds need not be in the registry info)
  let mut existings: Vec<Vec<usize>> = vec![vec![]];
  let mut cacheds: Vec<Vec<usize>> = vec![vec![]];
  if full {
    for m in 1..(1usize << n) {
      existings.push(subset_of(m, n));
    }
    for m in 1..(1usize << ids.len()) {
      cacheds.push(subset_of(m, ids.len()).into_iter().map(|k| ids[k]).collect());
    }
    // a cached manifest of a version the registry info does not list
    if let Some(absent) = (0..n).find(|k| !ids.contains(k)) {
      cacheds.push(vec![absent]);
    }
  } else {
    for _ in 0..3 {
      let mut e = random_subset(rng, n, 3);
      if rng.chance(10) {
        let d = e[0];
        e.push(d); // an iterator may repeat a version
      }
      existings.push(e);
    }
    if !ids.is_empty() {
      cacheds.push(ids.clone());
      let k = rng.range(1, ids.len());
      let mut c = random_perm(rng, &ids);
      c.truncate(k);
      cacheds.push(c);
    }
    cacheds.push(random_subset(rng, n, 2));
  }
  let req_ids: Vec<usize> = (0..u.reqs.len()).collect();
  let mut obs = vec![];
  let mut dist: BTreeMap<String, u64> = BTreeMap::new();
  let cached_sets: Vec<HashSet<Version>> =
    cacheds.iter().map(|c| c.iter().map(|i| u.vs[*i].clone()).collect()).collect();
  for o in &opts {
    let resolver = JsrVersionResolver { newest_dependency_date_options: o.real() };
    for r in &req_ids {
      let req = PackageReq { name: name.clone(), version_req: u.reqs[*r].clone() };
      for ex in &existings {
        for ca in &cached_sets {
          let out = real_resolve(u, &resolver, &name, &info, &req, ex, ca, false, &mut direct);
          *dist.entry(out.class().to_string()).or_insert(0) += 1;
          obs.push(out.sx());
        }
      }
    }
  }
  let nq = obs.len() as u64;
  let classes = dist.len();
  let mut d: Vec<(String, u64)> = dist.into_iter().collect();
  d.push((format!("stream_{}", stream), 1));
  d.push((format!("info_versions_{}", entries.len()), 1));
  d.push(("queries".into(), nq));
  d.push((format!("queries_{}", stream), nq));
  if !hit {
    d.push(("hashmap_order_target_missed".into(), 1));
  }
  let input = Sx::L(vec![
    Sx::A(0),
    u.ranks_sx(),
    u.mm_sx(),
    info_sx(&ordered),
    str_sx(PKG),
    Sx::L(opts.iter().map(|o| o.sx()).collect()),
    Sx::atoms(req_ids.iter().map(|r| *r as u64)),
    Sx::L(existings.iter().map(|e| Sx::atoms(e.iter().map(|i| *i as u64))).collect()),
    Sx::L(cacheds.iter().map(|e| Sx::atoms(e.iter().map(|i| *i as u64))).collect()),
  ]);
  Case {
    input,
    obs: Sx::L(obs),
    meta: serde_json::json!({
      "kind": "product", "stream": stream, "universe": u.json(), "package": PKG,
      "info_in_hashmap_order": ordered.iter().map(|(vi, y, c)| serde_json::json!({"version": u.texts[*vi], "yanked": y, "created": c})).collect::<Vec<_>>(),
      "options": opts.iter().map(|o| o.json()).collect::<Vec<_>>(),
      "existing_sets": existings, "cached_sets": cacheds,
      "order": "options x requirements x existing x cached",
    }),
    nontrivial: classes >= 2 && !entries.is_empty(),
    dist: d,
    direct_violations: direct,
  }
}

// ------------------------------------------------------------------ kind 1

fn explicit_case(rng: &mut Rng, u: &Universe, equal_rank_bias: bool, nq: usize) -> Case {
  let mut direct = u.problems.clone();
  let name = PackageName::from_str(PKG);
  let n = u.vs.len();
  let mut qs = vec![];
  let mut obs = vec![];
  let mut descr = vec![];
  let mut dist: BTreeMap<String, u64> = BTreeMap::new();
  let mut missed = 0u64;
  for _ in 0..nq {
    let mut entries = random_entries(rng, n, 0, 5, 6);
    if equal_rank_bias {
      // make sure two versions that compare Equal are present (ids 2,3,4 = 1.0.0, 1.0.0+a, 1.0.0+b)
      let pool = [2usize, 3, 4];
      let a = pool[rng.below(3)];
      let b = pool[(pool.iter().position(|x| *x == a).unwrap() + 1 + rng.below(2)) % 3];
      let twin_state = (rng.chance(20), if rng.chance(50) { None } else { Some(997 + rng.below(6) as u64) });
      for id in [a, b] {
        if !entries.iter().any(|e| e.0 == id) {
          if entries.len() >= 5 {
            entries.pop();
          }
          let st = if rng.chance(80) { twin_state } else { (rng.chance(35), None) };
          entries.push((id, st.0, st.1));
        }
      }
      entries.sort();
      entries.dedup_by_key(|e| e.0);
    }
    let ids: Vec<usize> = entries.iter().map(|e| e.0).collect();
    let want1 = random_perm(rng, &ids);
    let mut want2: Vec<usize> = want1.iter().rev().cloned().collect();
    if rng.chance(30) {
      want2 = random_perm(rng, &ids);
    }
    let (info1, ord1, hit1) = build_info(u, &entries, &want1);
    let (info2, ord2, hit2) = build_info(u, &entries, &want2);
    if !hit1 || !hit2 {
      missed += 1;
    }
    let okind = rng.below(3);
    let o = opts_variant(okind, rng.below(2), 1000);
    let r = rng.below(u.reqs.len());
    let existing: Vec<usize> = match rng.below(10) {
      0..=4 => vec![],
      5..=7 => random_subset(rng, n, 3),
      _ => {
        let mut e = random_subset(rng, n, 3);
        let d = e[0];
        e.push(d);
        e
      }
    };
    let cached: Vec<usize> = match rng.below(10) {
      0..=4 => vec![],
      5..=7 if !ids.is_empty() => {
        let k = rng.range(1, ids.len());
        let mut c = random_perm(rng, &ids);
        c.truncate(k);
        c
      }
      _ => random_subset(rng, n, 3),
    };
    let cached_set: HashSet<Version> = cached.iter().map(|i| u.vs[*i].clone()).collect();
    let resolver = JsrVersionResolver { newest_dependency_date_options: o.real() };
    let req = PackageReq { name: name.clone(), version_req: u.reqs[r].clone() };
    let r1 = real_resolve(u, &resolver, &name, &info1, &req, &existing, &cached_set, true, &mut direct);
    // the second answer also sees the existing versions in another order
    let mut existing2 = existing.clone();
    existing2.reverse();
    let r2 = real_resolve(u, &resolver, &name, &info2, &req, &existing2, &cached_set, true, &mut direct);
    let mut ex_ids = existing.clone();
    ex_ids.sort();
    ex_ids.dedup();
    let wf = u.distinct_ranks(&ids) && u.distinct_ranks(&ex_ids);
    *dist.entry(r1.class().to_string()).or_insert(0) += 1;
    *dist.entry(format!("info_versions_{}", entries.len())).or_insert(0) += 1;
    *dist.entry(if wf { "wf_distinct_ranks".to_string() } else { "equal_rank_versions_present".to_string() }).or_insert(0) += 1;
    if r1 != r2 {
      *dist.entry("answer_depends_on_hashmap_order".to_string()).or_insert(0) += 1;
    }
    qs.push(Sx::L(vec![
      info_sx(&ord1),
      info_sx(&ord2),
      o.sx(),
      Sx::A(r as u64),
      Sx::atoms(existing.iter().map(|i| *i as u64)),
      Sx::atoms(existing2.iter().map(|i| *i as u64)),
      Sx::atoms(cached.iter().map(|i| *i as u64)),
      r1.sx(),
      r2.sx(),
    ]));
    obs.push(Sx::L(vec![r1.sx(), r2.sx(), Sx::b(wf), Sx::judge(true), Sx::judge(true)]));
    // one compact line per query (meta of 40 queries x thousands of cases adds up)
    let show = |ord: &[Entry]| {
      ord
        .iter()
        .map(|(vi, y, c)| format!("{}{}@{}", u.texts[*vi], if *y { "(yanked)" } else { "" }, c.map(|c| c.to_string()).unwrap_or("-".into())))
        .collect::<Vec<_>>()
        .join(" ")
    };
    let show_out = |x: &Outcome| match x {
      Outcome::Ok(v, y) => format!("{}{}", u.texts.get(*v as usize).cloned().unwrap_or("?".into()), if *y { " (yanked)" } else { "" }),
      Outcome::Err(f) => format!("not found, date in error: {:?}", f),
    };
    let names = |l: &[usize]| l.iter().map(|i| u.texts[*i].clone()).collect::<Vec<_>>().join(" ");
    descr.push(serde_json::json!(format!(
      "registry order 1 [{}] | order 2 [{}] | options {} | requirement {} | existing [{}] | cached [{}] | answer 1: {} | answer 2: {}",
      show(&ord1), show(&ord2), o.json(), u.req_texts[r], names(&existing), names(&cached), show_out(&r1), show_out(&r2)
    )));
  }
  let classes = dist.keys().filter(|k| k.starts_with("out_")).count();
  let mut d: Vec<(String, u64)> = dist.into_iter().collect();
  let stream = if equal_rank_bias { "explicit_equal_rank" } else { "explicit_sampled" };
  d.push((format!("stream_{}", stream), 1));
  d.push(("queries".into(), nq as u64));
  d.push((format!("queries_{}", stream), nq as u64));
  if missed > 0 {
    d.push(("hashmap_order_target_missed".into(), missed));
  }
  Case {
    input: Sx::L(vec![Sx::A(1), u.ranks_sx(), u.mm_sx(), str_sx(PKG), Sx::L(qs)]),
    obs: Sx::L(obs),
    meta: serde_json::json!({"kind": "explicit", "stream": stream, "universe": u.json(), "package": PKG, "queries": descr}),
    nontrivial: classes >= 2,
    dist: d,
    direct_violations: direct,
  }
}

// ------------------------------------------------------------------ kind 2

const GFP_NAMES: [&str; 11] = ["@a/b", "@a/bc", "@a", "@ab/c", "a/b", "@a/", "", "@A/b", "b", "@\u{fc}/x", "@a/b/c"];
const GFP_PREFIXES: [&str; 10] = ["@a/", "@a", "a", "", "@a/b", "@ab", "b", "/b", "@\u{fc}", "@\u{c3}"];

fn small_sets<'a>(pool: &[&'a str]) -> Vec<Vec<&'a str>> {
  let mut out: Vec<Vec<&str>> = vec![vec![]];
  for a in 0..pool.len() {
    out.push(vec![pool[a]]);
    for b in (a + 1)..pool.len() {
      out.push(vec![pool[a], pool[b]]);
    }
  }
  out
}

/// All option sets with <= 2 exclusions (the k-th choice) x <= 2 prefixes x date on/off, on all names.
fn gfp_case(k: usize) -> Case {
  let excl_sets = small_sets(&GFP_NAMES);
  let pre_sets = small_sets(&GFP_PREFIXES);
  let excl = &excl_sets[k % excl_sets.len()];
  let mut opts = vec![];
  for pre in &pre_sets {
    for d in [None, Some(1000u64)] {
      opts.push(Opts {
        date: d,
        exclude: excl.iter().map(|s| s.to_string()).collect(),
        prefixes: pre.iter().map(|s| s.to_string()).collect(),
      });
    }
  }
  let mut obs = vec![];
  let mut some = 0u64;
  let mut none = 0u64;
  for o in &opts {
    let real = o.real();
    for nme in GFP_NAMES.iter() {
      let got = real.get_for_package(&PackageName::from_str(nme)).map(|d| undate(d.0));
      if got.is_some() {
        some += 1;
      } else {
        none += 1;
      }
      obs.push(Sx::L(vec![Sx::opt(got.map(Sx::A))]));
    }
  }
  let nq = obs.len() as u64;
  Case {
    input: Sx::L(vec![
      Sx::A(2),
      Sx::L(GFP_NAMES.iter().map(|s| str_sx(s)).collect()),
      Sx::L(opts.iter().map(|o| o.sx()).collect()),
    ]),
    obs: Sx::L(obs),
    meta: serde_json::json!({"kind": "get_for_package", "names": GFP_NAMES, "exclude": excl, "prefix_sets": pre_sets.len(),
      "order": "prefix sets x date(off,on) x names", "exhaustive": true}),
    nontrivial: some > 0 && none > 0,
    dist: vec![
      ("stream_get_for_package_exhaustive".into(), 1),
      ("queries".into(), nq),
      ("queries_get_for_package".into(), nq),
      ("gfp_cutoff_in_force".into(), some),
      ("gfp_no_cutoff".into(), none),
    ],
    direct_violations: vec![],
  }
}

// ------------------------------------------------------------------ kind 3

fn free_case(rng: &mut Rng, u: &Universe, nq: usize) -> Case {
  let direct = u.problems.clone();
  let n = u.vs.len();
  let mut qs = vec![];
  let mut obs = vec![];
  let mut descr = vec![];
  let mut some = 0u64;
  let mut none_had = 0u64;
  let mut none_plain = 0u64;
  for _ in 0..nq {
    let r = rng.below(u.reqs.len());
    let cutoff = if rng.chance(30) { None } else { Some(997 + rng.below(7) as u64) };
    let len = match rng.below(10) {
      0 => 0,
      1..=6 => rng.range(1, 4),
      _ => rng.range(3, 8),
    };
    // an explicit sequence: repeats allowed, order is exactly what the code sees
    let items: Vec<(usize, Option<(bool, Option<u64>)>)> = (0..len)
      .map(|_| {
        let vi = rng.below(n);
        let info = if rng.chance(25) {
          None
        } else {
          Some((rng.chance(30), if rng.chance(25) { None } else { Some(997 + rng.below(7) as u64) }))
        };
        (vi, info)
      })
      .collect();
    let infos: Vec<Option<JsrPackageInfoVersion>> = items
      .iter()
      .map(|(_, i)| i.map(|(y, c)| JsrPackageInfoVersion { created_at: c.map(date), yanked: y }))
      .collect();
    let res = resolve_version(
      ResolveVersionOptions { version_req: &u.reqs[r], newest_dependency_date: cutoff.map(|c| NewestDependencyDate(date(c))) },
      items.iter().zip(infos.iter()).map(|((vi, _), i)| (&u.vs[*vi], i.as_ref())),
    );
    let out = match res {
      ResolveVersionResult::Some(v) => {
        some += 1;
        Sx::L(vec![Sx::A(1), Sx::A(u.id_of(v).unwrap())])
      }
      ResolveVersionResult::None { had_higher_date_version } => {
        if had_higher_date_version {
          none_had += 1;
        } else {
          none_plain += 1;
        }
        Sx::L(vec![Sx::A(0), Sx::b(had_higher_date_version)])
      }
    };
    qs.push(Sx::L(vec![
      Sx::A(r as u64),
      Sx::opt(cutoff.map(Sx::A)),
      Sx::L(
        items
          .iter()
          .map(|(vi, i)| {
            Sx::L(vec![Sx::A(*vi as u64), Sx::opt(i.map(|(y, c)| Sx::L(vec![Sx::b(y), Sx::opt(c.map(Sx::A))])))])
          })
          .collect(),
      ),
    ]));
    descr.push(serde_json::json!(format!(
      "requirement {} | cutoff {:?} | sequence [{}] | result {}",
      u.req_texts[r],
      cutoff,
      items
        .iter()
        .map(|(vi, i)| match i {
          None => format!("{}:no-info", u.texts[*vi]),
          Some((y, c)) => format!("{}{}@{}", u.texts[*vi], if *y { "(yanked)" } else { "" }, c.map(|c| c.to_string()).unwrap_or("-".into())),
        })
        .collect::<Vec<_>>()
        .join(" "),
      out.to_string()
    )));
    obs.push(out);
  }
  Case {
    input: Sx::L(vec![Sx::A(3), u.ranks_sx(), u.mm_sx(), Sx::L(qs)]),
    obs: Sx::L(obs),
    meta: serde_json::json!({"kind": "free resolve_version", "universe": u.json(), "queries": descr}),
    nontrivial: some > 0 && none_had + none_plain > 0,
    dist: vec![
      ("stream_free_resolve_version".into(), 1),
      ("queries".into(), nq as u64),
      ("queries_free_resolve_version".into(), nq as u64),
      ("free_some".into(), some),
      ("free_none_had_match".into(), none_had),
      ("free_none_no_match".into(), none_plain),
    ],
    direct_violations: direct,
  }
}

// ------------------------------------------------------------------ plan

struct Plan {
  n_exh: u64,
  n_wide: u64,
  n_explicit: u64,
  n_equal: u64,
  n_gfp: u64,
  n_free: u64,
}

fn plan(tier: Tier, n_exh: u64) -> Plan {
  let n_gfp = small_sets(&GFP_NAMES).len() as u64;
  match tier {
    Tier::Quick => Plan { n_exh, n_wide: 700, n_explicit: 1500, n_equal: 500, n_gfp, n_free: 800 },
    Tier::Thorough => Plan { n_exh, n_wide: 8000, n_explicit: 12000, n_equal: 4000, n_gfp, n_free: 6000 },
  }
}

pub fn run(cfg: &RunCfg) {
  let tier = cfg.tier;
  let infos = exhaustive_infos();
  let p = plan(tier, infos.len() as u64);
  let total = p.n_exh + p.n_wide + p.n_explicit + p.n_equal + p.n_gfp + p.n_free;
  let u5 = Universe::new(&U5, &R6);
  let ux = Universe::new(&UX, &RX);
  // the wide universe without the build-metadata twins: ranks are distinct
  let ux_wf_texts: Vec<&str> = UX.iter().cloned().filter(|t| !t.contains('+')).collect();
  let ux_wf = Universe::new(&ux_wf_texts, &RX);
  // graph level: registry (stage B2) worlds where the real builder selects versions (unification with
  // versions already in the graph, yanked fallback, cached-manifest preference, restart on a stale document)
  let nj = if tier == Tier::Quick { 2000 } else { 40000 };
  run_cases(cfg, total + nj, |seed, k| {
    if k >= total {
      return crate::props::jsr::gen_case(seed, k - total, crate::props::jsr::Flavour::Versions);
    }
    let mut rng = Rng::for_case(seed, k);
    let mut k = k;
    if k < p.n_exh {
      // quick: every info of the exhaustive domain with a seeded selection of existing / cached
      // sets; thorough: all 32 existing subsets x all cached subsets
      return product_case(&mut rng, &u5, &infos[k as usize], tier == Tier::Thorough, "exhaustive_le3_of_5");
    }
    k -= p.n_exh;
    if k < p.n_wide {
      // 4-5 of the 5 versions, and 4-6 of the wider universe, sampled
      return if k % 2 == 0 {
        let e = random_entries(&mut rng, 5, 4, 5, 2);
        product_case(&mut rng, &u5, &e, false, "sampled_4to5_of_5")
      } else {
        let e = random_entries(&mut rng, ux_wf.vs.len(), 3, 6, 6);
        product_case(&mut rng, &ux_wf, &e, false, "sampled_wide")
      };
    }
    k -= p.n_wide;
    if k < p.n_explicit {
      return explicit_case(&mut rng, if k % 3 == 0 { &ux } else { &ux_wf }, false, 40);
    }
    k -= p.n_explicit;
    if k < p.n_equal {
      return explicit_case(&mut rng, &ux, true, 20);
    }
    k -= p.n_equal;
    if k < p.n_gfp {
      return gfp_case(k as usize);
    }
    free_case(&mut rng, &ux, 40)
  });
}
