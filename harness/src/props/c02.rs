//! C02: validation fails exactly when a followed edge reaches a failure.
//! The implementation's verdict is part of the model input: the extracted
//! decision procedure (proved correct: C02_failsb_correct) judges it.
use crate::abs::*;
use crate::build::*;
use crate::common::*;
use crate::props::c15::*;
use crate::rng::Rng;
use crate::sexp::Sx;
use deno_graph::*;
use std::collections::HashSet;

#[derive(Debug)]
struct SetCheckJs(HashSet<String>);
impl CheckJsResolver for SetCheckJs {
  fn resolve(&self, specifier: &ModuleSpecifier) -> bool {
    self.0.contains(specifier.as_str())
  }
}

pub fn gen_case(seed: u64, k: u64, tier: Tier) -> Case {
  let mut rng = Rng::for_case(seed, k);
  let (_world, roots, bcfg, graph, known, _nmut) = gen_graph(&mut rng, tier);
  let mut it = build_intern(&graph, &known);
  let gsx = abs_graph(&graph, &mut it);
  let mut qs = vec![];
  let mut obs = vec![];
  let mut direct = vec![];
  let mut n_err = 0;
  let mut descr = vec![];
  let nq = 8;
  for qi in 0..nq {
    let mut q = gen_query(&mut rng, &graph, &known);
    q.skip.clear();
    if qi == 0 {
      // ModuleGraph::valid() itself
      q.kind = 1;
      q.follow_dynamic = false;
      q.check_js_mode = 1;
      q.prefer_fc = false;
      q.roots = graph.roots.iter().map(|r| r.to_string()).collect();
    }
    let cj = SetCheckJs(q.check_js_set.iter().cloned().collect());
    let opts = WalkOptions {
      check_js: match q.check_js_mode {
        0 => CheckJsOption::False,
        1 => CheckJsOption::True,
        _ => CheckJsOption::Custom(&cj),
      },
      follow_dynamic: q.follow_dynamic,
      kind: graph_kind(q.kind),
      prefer_fast_check_graph: q.prefer_fc,
    };
    let roots_u: Vec<ModuleSpecifier> = q.roots.iter().map(|r| ModuleSpecifier::parse(r).unwrap()).collect();
    let verdict = graph.walk(roots_u.iter(), opts).validate();
    if qi == 0 {
      let v2 = graph.valid();
      if v2.is_ok() != verdict.is_ok() {
        direct.push("valid() disagrees with the equivalent walk().validate()".to_string());
      }
    }
    let ok = verdict.is_ok();
    if !ok {
      n_err += 1;
    }
    descr.push(serde_json::json!({"kind": q.kind, "follow_dynamic": q.follow_dynamic, "check_js": q.check_js_mode,
      "prefer_fc": q.prefer_fc, "roots": q.roots, "verdict": verdict.as_ref().err().map(|e| e.to_string_with_range())}));
    let qsx = match query_sx(&q, &it) {
      Sx::L(v) => Sx::L(vec![v[0].clone(), v[1].clone(), Sx::b(ok)]),
      x => x,
    };
    qs.push(qsx);
    obs.push(Sx::L(vec![Sx::b(ok), Sx::judge(true)]));
  }
  let n_mod = graph.modules().count();
  Case {
    input: Sx::L(vec![gsx, Sx::L(qs)]),
    obs: Sx::L(obs),
    meta: serde_json::json!({"roots": roots, "build": format!("{:?}", bcfg), "queries": descr,
      "graph": serde_json::to_value(&graph).unwrap()}),
    nontrivial: n_mod >= 2 && n_err >= 1 && n_err < nq,
    dist: vec![
      (format!("modules_{}", n_mod.min(10)), 1),
      (format!("failing_verdicts_{}", n_err), 1),
      ("validations".to_string(), nq as u64),
    ],
    direct_violations: direct,
  }
}

pub fn run(cfg: &RunCfg) {
  let n = if cfg.tier == Tier::Quick { 4000 } else { 100000 };
  let tier = cfg.tier;
  run_cases(cfg, n, |seed, k| gen_case(seed, k, tier));
}
