//! C04: build results do not depend on load completion order or on the run.
//! Part 1 (this file, relational on the real code): repeated executions in one
//! process (fresh hasher state each) and completion-order schedules through a
//! gated loader must all give the same observation.
use crate::build::*;
use crate::common::*;
use crate::abs::*;
use crate::absworld::*;
use crate::props::c01::*;
use crate::props::c17::describe_world;
use crate::rng::Rng;
use crate::sexp::Sx;
use crate::world::*;
use deno_graph::source::*;
use deno_graph::*;
use futures::FutureExt;
use std::cell::RefCell;
use std::collections::VecDeque;
use std::future::Future;
use std::pin::Pin;
use std::rc::Rc;
use std::task::{Context, Poll, Waker};

/// Everything the property lists: serialised graph (modules, dependencies,
/// redirects, packages), every error with its referrer range, loader calls
/// as a multiset per specifier.
pub fn observe(graph: &ModuleGraph) -> String {
  let mut out = serde_json::to_string(graph).unwrap();
  for e in graph.module_errors() {
    out.push_str("\n");
    out.push_str(&e.to_string_with_range());
  }
  out
}

/// A future that is pending until its gate is opened.
#[derive(Default)]
pub struct GateState {
  open: bool,
  waker: Option<Waker>,
}
struct Gate {
  state: Rc<RefCell<GateState>>,
  result: Option<LoadResult>,
}
impl Future for Gate {
  type Output = LoadResult;
  fn poll(mut self: Pin<&mut Self>, cx: &mut Context<'_>) -> Poll<LoadResult> {
    let open = self.state.borrow().open;
    if open {
      Poll::Ready(self.result.take().unwrap())
    } else {
      self.state.borrow_mut().waker = Some(cx.waker().clone());
      Poll::Pending
    }
  }
}

pub struct GatedLoader<'a> {
  inner: WorldLoader<'a>,
  gates: RefCell<Vec<Rc<RefCell<GateState>>>>,
}

impl Loader for GatedLoader<'_> {
  fn max_redirects(&self) -> usize {
    self.inner.max_redirects
  }
  fn load(&self, specifier: &ModuleSpecifier, options: LoadOptions) -> LoadFuture {
    // the inner loader answers at once (and logs the call); the answer is held back by the gate
    let result = futures::executor::block_on(self.inner.load(specifier, options));
    let state = Rc::new(RefCell::new(GateState::default()));
    self.gates.borrow_mut().push(state.clone());
    Gate { state, result: Some(result) }.boxed_local()
  }
}

impl<'a> GatedLoader<'a> {
  pub fn new(inner: WorldLoader<'a>) -> Self {
    GatedLoader { inner, gates: RefCell::new(vec![]) }
  }
  pub fn into_log(self) -> Vec<LoadCall> {
    self.inner.log.into_inner()
  }
  /// Drives `fut` to completion; whenever it is pending, one closed gate chosen by the schedule is
  /// opened. None when the poll budget is exhausted. Returns the largest number of outstanding loads.
  pub fn drive<F: Future<Output = ()>>(&self, fut: F, schedule: &mut Rng) -> Option<usize> {
    let mut fut = Box::pin(fut);
    let waker = Waker::noop();
    let mut cx = Context::from_waker(waker);
    let mut polls = 0;
    let mut max_outstanding = 0;
    loop {
      match fut.as_mut().poll(&mut cx) {
        Poll::Ready(()) => return Some(max_outstanding),
        Poll::Pending => {
          polls += 1;
          if polls > 100_000 {
            return None;
          }
          let gates = self.gates.borrow();
          let closed: Vec<&Rc<RefCell<GateState>>> = gates.iter().filter(|g| !g.borrow().open).collect();
          max_outstanding = max_outstanding.max(closed.len());
          if closed.is_empty() {
            continue;
          }
          let pick = schedule.below(closed.len());
          let w = {
            let mut st = closed[pick].borrow_mut();
            st.open = true;
            st.waker.take()
          };
          if let Some(w) = w {
            w.wake();
          }
        }
      }
    }
  }
}

/// Builds with a schedule: whenever the build future is pending, one closed
/// gate chosen by the schedule's next number is opened. Returns None if the
/// build does not finish within the poll budget (reported as non-termination).
pub fn build_scheduled(c: &BuiltCase, schedule: &mut Rng) -> Option<(ModuleGraph, usize)> {
  let mut inner = WorldLoader::new(&c.world);
  inner.max_redirects = c.max_redirects;
  let loader = GatedLoader { inner, gates: RefCell::new(vec![]) };
  let mut graph = ModuleGraph::new(graph_kind(c.bcfg.kind));
  let roots_u: Vec<ModuleSpecifier> = c.roots.iter().map(|r| ModuleSpecifier::parse(r).unwrap()).collect();
  let imports: Vec<ReferrerImports> = c.bcfg
    .imports
    .iter()
    .map(|(r, i)| ReferrerImports { referrer: ModuleSpecifier::parse(r).unwrap(), imports: i.clone() })
    .collect();
  let exec = InlineExecutor;
  let npm = c.world.npm.as_ref().map(|a| crate::world::WorldNpm { answers: a, log: &loader.inner.log });
  let options = BuildOptions {
    is_dynamic: c.bcfg.is_dynamic,
    skip_dynamic_deps: c.bcfg.skip_dynamic_deps,
    unstable_bytes_imports: c.unstable.0,
    unstable_text_imports: c.unstable.1,
    unstable_css_imports: c.unstable.2,
    passthrough_jsr_specifiers: c.world.passthrough_jsr,
    resolver: c.world.resolver.as_ref().map(|r| r as &dyn deno_graph::source::Resolver),
    npm_resolver: npm.as_ref().map(|r| r as &dyn deno_graph::source::NpmResolver),
    executor: &exec,
    ..Default::default()
  };
  let mut max_outstanding = 0;
  {
    let mut fut = Box::pin(graph.build(roots_u, imports, &loader, options));
    let waker = Waker::noop();
    let mut cx = Context::from_waker(waker);
    let mut polls = 0;
    loop {
      match fut.as_mut().poll(&mut cx) {
        Poll::Ready(()) => break,
        Poll::Pending => {
          polls += 1;
          if polls > 100_000 {
            return None;
          }
          let gates = loader.gates.borrow();
          let closed: Vec<&Rc<RefCell<GateState>>> = gates.iter().filter(|g| !g.borrow().open).collect();
          max_outstanding = max_outstanding.max(closed.len());
          if closed.is_empty() {
            // nothing to release: a suspension without an outstanding load
            continue;
          }
          let pick = schedule.below(closed.len());
          let w = {
            let mut st = closed[pick].borrow_mut();
            st.open = true;
            st.waker.take()
          };
          if let Some(w) = w {
            w.wake();
          }
        }
      }
    }
  }
  Some((graph, max_outstanding))
}

pub fn gen_case(seed: u64, k: u64, tier: Tier) -> Case {
  let mut rng = Rng::for_case(seed, k);
  let mut c = gen_build_case(&mut rng, tier);
  // bias towards several dynamic branches sharing a failing descendant
  if rng.chance(50) {
    let mods: Vec<String> = c.world.entries.iter().filter(|(s, e)| attr_class_target(s, true) == 0 && matches!(e, Entry::Module { raw: None, .. })).map(|(k, _)| k.clone()).collect();
    if mods.len() >= 3 {
      let root = mods[0].clone();
      for m in &mods[1..] {
        if let Some(Entry::Module { src, .. }) = c.world.entries.get_mut(m) {
          src.imports.push(Imp { form: Form::Static, text: "https://h.test/nowhere.ts".to_string() });
        }
      }
      if let Some(Entry::Module { src, .. }) = c.world.entries.get_mut(&root) {
        for m in &mods[1..] {
          src.imports.push(Imp { form: Form::Dynamic, text: m.clone() });
        }
      }
      if !c.roots.contains(&root) {
        c.roots.push(root);
      }
    }
  }
  // response headers whose names are spelled in mixed case, twice, with different values and without the
  // lower-cased spelling: a header map is a HashMap (fresh hasher state per response), so whatever the builder
  // reads from it must not depend on its iteration order
  if rng.chance(35) {
    let js: Vec<String> = c.world.entries.iter().filter(|(s, e)| !s.starts_with("file:") && (s.ends_with(".js") || s.ends_with(".mjs")) && matches!(e, Entry::Module { raw: None, .. })).map(|(k, _)| k.clone()).collect();
    let targets: Vec<String> = c.world.entries.iter().filter(|(s, e)| attr_class_target(s, true) == 0 && matches!(e, Entry::Module { raw: None, .. })).map(|(k, _)| k.clone()).collect();
    if !js.is_empty() && targets.len() >= 2 {
      let m = rng.pick(&js).clone();
      let a = rng.pick(&targets).clone();
      let mut b = rng.pick(&targets).clone();
      if b == a {
        b = targets.iter().find(|t| **t != a).unwrap().clone();
      }
      if let Some(Entry::Module { headers, .. }) = c.world.entries.get_mut(&m) {
        let mut h: Vec<(String, String)> = headers.clone().unwrap_or_default().into_iter().filter(|(k, _)| k != "x-typescript-types").collect();
        h.push(("X-TypeScript-Types".to_string(), a));
        h.push(("X-Typescript-Types".to_string(), b));
        h.push(("Content-Type".to_string(), "application/typescript".to_string()));
        h.push(("Content-type".to_string(), "text/javascript".to_string()));
        *headers = Some(h);
      }
    }
  }
  let mut direct = vec![];
  // reference: immediate-ready loader
  let mut ref_graph = ModuleGraph::new(graph_kind(c.bcfg.kind));
  let ref_log = real_build(&c, &mut ref_graph, &c.roots, &c.bcfg.imports);
  let reference = observe(&ref_graph);
  let repeats = if tier == Tier::Quick { 6 } else { 25 };
  let mut n_builds = 1;
  for r in 0..repeats {
    let mut g = ModuleGraph::new(graph_kind(c.bcfg.kind));
    real_build(&c, &mut g, &c.roots, &c.bcfg.imports);
    n_builds += 1;
    let o = observe(&g);
    if o != reference {
      direct.push(format!("repeated execution {} of the same build differs from the first: {}", r, first_line_diff(&reference, &o)));
      break;
    }
  }
  let schedules = if tier == Tier::Quick { 8 } else { 40 };
  let mut max_out = 0;
  for sidx in 0..schedules {
    let mut sched = Rng::for_case(seed ^ 0x5eed, k * 1000 + sidx);
    match build_scheduled(&c, &mut sched) {
      None => {
        direct.push("build did not finish under a completion schedule (poll budget exhausted)".to_string());
        break;
      }
      Some((g, mo)) => {
        n_builds += 1;
        max_out = max_out.max(mo);
        let o = observe(&g);
        if o != reference {
          direct.push(format!("completion schedule {} gives a different result: {}", sidx, first_line_diff(&reference, &o)));
          break;
        }
      }
    }
  }
  // the reference build is also what the (schedule-free, proved schedule-independent) model computes
  let (parsed, strings) = parse_world(&c);
  let mut it = build_intern_multi(&[&ref_graph], &strings);
  let w = abs_world(&c.world, &parsed, c.max_redirects, &mut it);
  let imps = abs_imports(&ref_graph, &mut it);
  let obs = abs_bgraph(&ref_graph, &ref_log, &mut it);
  Case {
    input: Sx::L(vec![w, opts_sx(&c), Sx::atoms(c.roots.iter().map(|r| it.spec(r))), imps]),
    obs: Sx::L(vec![obs]),
    meta: serde_json::json!({"roots": c.roots, "build": format!("{:?}", c.bcfg), "world": describe_world(&c.world)}),
    nontrivial: max_out >= 3,
    dist: vec![
      ("builds".to_string(), n_builds as u64),
      (format!("max_outstanding_{:02}", max_out.min(12)), 1),
    ],
    direct_violations: direct,
  }
}

fn first_line_diff(a: &str, b: &str) -> String {
  // position of first difference, with context
  let ab = a.as_bytes();
  let bb = b.as_bytes();
  let mut i = 0;
  while i < ab.len() && i < bb.len() && ab[i] == bb[i] {
    i += 1;
  }
  let lo = i.saturating_sub(80);
  format!(
    "at byte {}: ...{} | ...{}",
    i,
    String::from_utf8_lossy(&ab[lo..(i + 80).min(ab.len())]),
    String::from_utf8_lossy(&bb[lo..(i + 80).min(bb.len())])
  )
}

pub fn run(cfg: &RunCfg) {
  let n = if cfg.tier == Tier::Quick { 600 } else { 8000 };
  // registry (stage B2) worlds under completion schedules, prefer_cached_jsr_versions mostly on
  let nj = if cfg.tier == Tier::Quick { 500 } else { 8000 };
  let tier = cfg.tier;
  run_cases(cfg, n + nj, |seed, k| {
    if k < n { gen_case(seed, k, tier) } else { crate::props::jsr::gen_case_scheduled(seed, k - n, tier) }
  });
}
