//! C04: build results do not depend on load completion order or on the run.
//! Part 1 (this file, relational on the real code): repeated executions in one
//! process (fresh hasher state each) and completion-order schedules through a
//! gated loader must all give the same observation.
use crate::build::*;
use crate::common::*;
use crate::props::c17::describe_world;
use crate::rng::Rng;
use crate::sexp::Sx;
use crate::world::*;
use deno_graph::source::*;
use deno_graph::*;
use futures::FutureExt;
use std::cell::RefCell;
use std::collections::VecDeque;
use std::future::Future;
use std::pin::Pin;
use std::rc::Rc;
use std::task::{Context, Poll, Waker};

/// Everything the property lists: serialised graph (modules, dependencies,
/// redirects, packages), every error with its referrer range, loader calls
/// as a multiset per specifier.
pub fn observe(graph: &ModuleGraph) -> String {
  let mut out = serde_json::to_string(graph).unwrap();
  for e in graph.module_errors() {
    out.push_str("\n");
    out.push_str(&e.to_string_with_range());
  }
  out
}

/// A future that is pending until its gate is opened.
#[derive(Default)]
pub struct GateState {
  open: bool,
  waker: Option<Waker>,
}
struct Gate {
  state: Rc<RefCell<GateState>>,
  result: Option<LoadResult>,
}
impl Future for Gate {
  type Output = LoadResult;
  fn poll(mut self: Pin<&mut Self>, cx: &mut Context<'_>) -> Poll<LoadResult> {
    let open = self.state.borrow().open;
    if open {
      Poll::Ready(self.result.take().unwrap())
    } else {
      self.state.borrow_mut().waker = Some(cx.waker().clone());
      Poll::Pending
    }
  }
}

pub struct GatedLoader<'a> {
  inner: WorldLoader<'a>,
  gates: RefCell<Vec<Rc<RefCell<GateState>>>>,
}

impl Loader for GatedLoader<'_> {
  fn load(&self, specifier: &ModuleSpecifier, options: LoadOptions) -> LoadFuture {
    let _ = options;
    let result = self.inner.answer(specifier);
    let state = Rc::new(RefCell::new(GateState::default()));
    self.gates.borrow_mut().push(state.clone());
    Gate { state, result: Some(result) }.boxed_local()
  }
}

/// Builds with a schedule: whenever the build future is pending, one closed
/// gate chosen by the schedule's next number is opened. Returns None if the
/// build does not finish within the poll budget (reported as non-termination).
pub fn build_scheduled(world: &World, roots: &[String], cfg: &BuildCfg, schedule: &mut Rng) -> Option<(ModuleGraph, usize)> {
  let loader = GatedLoader { inner: WorldLoader::new(world), gates: RefCell::new(vec![]) };
  let mut graph = ModuleGraph::new(graph_kind(cfg.kind));
  let roots_u: Vec<ModuleSpecifier> = roots.iter().map(|r| ModuleSpecifier::parse(r).unwrap()).collect();
  let imports: Vec<ReferrerImports> = cfg
    .imports
    .iter()
    .map(|(r, i)| ReferrerImports { referrer: ModuleSpecifier::parse(r).unwrap(), imports: i.clone() })
    .collect();
  let exec = InlineExecutor;
  let options = BuildOptions { is_dynamic: cfg.is_dynamic, skip_dynamic_deps: cfg.skip_dynamic_deps, executor: &exec, ..Default::default() };
  let mut max_outstanding = 0;
  {
    let mut fut = Box::pin(graph.build(roots_u, imports, &loader, options));
    let waker = Waker::noop();
    let mut cx = Context::from_waker(waker);
    let mut polls = 0;
    loop {
      match fut.as_mut().poll(&mut cx) {
        Poll::Ready(()) => break,
        Poll::Pending => {
          polls += 1;
          if polls > 100_000 {
            return None;
          }
          let gates = loader.gates.borrow();
          let closed: Vec<&Rc<RefCell<GateState>>> = gates.iter().filter(|g| !g.borrow().open).collect();
          max_outstanding = max_outstanding.max(closed.len());
          if closed.is_empty() {
            // nothing to release: a suspension without an outstanding load
            continue;
          }
          let pick = schedule.below(closed.len());
          let w = {
            let mut st = closed[pick].borrow_mut();
            st.open = true;
            st.waker.take()
          };
          if let Some(w) = w {
            w.wake();
          }
        }
      }
    }
  }
  Some((graph, max_outstanding))
}

pub fn gen_case(seed: u64, k: u64, tier: Tier) -> Case {
  let mut rng = Rng::for_case(seed, k);
  let cfg = GenCfg { assets: false, max_modules: if tier == Tier::Quick { 8 } else { 12 }, redirects: true, faults: true, same_attr_proviso: false };
  let (mut world, roots) = gen_world(&mut rng, &cfg);
  // bias towards several dynamic branches sharing a failing descendant
  if rng.chance(50) {
    let mods: Vec<String> = world.entries.iter().filter(|(_, e)| matches!(e, Entry::Module { raw: None, .. })).map(|(k, _)| k.clone()).collect();
    if mods.len() >= 3 {
      let root = mods[0].clone();
      for m in &mods[1..] {
        if let Some(Entry::Module { src, .. }) = world.entries.get_mut(m) {
          src.imports.push(Imp { form: Form::Static, text: "https://h.test/nowhere.ts".to_string() });
        }
      }
      if let Some(Entry::Module { src, .. }) = world.entries.get_mut(&root) {
        for m in &mods[1..] {
          src.imports.push(Imp { form: Form::Dynamic, text: m.clone() });
        }
      }
    }
  }
  let bcfg = BuildCfg { kind: *rng.pick(&[0u8, 0, 1, 2]), is_dynamic: rng.chance(8), skip_dynamic_deps: rng.chance(8), ..Default::default() };
  let mut direct = vec![];
  // reference: immediate-ready loader
  let reference = observe(&new_graph(&world, &roots, &bcfg));
  let repeats = if tier == Tier::Quick { 8 } else { 25 };
  let mut n_builds = 1;
  for r in 0..repeats {
    let o = observe(&new_graph(&world, &roots, &bcfg));
    n_builds += 1;
    if o != reference {
      direct.push(format!("repeated execution {} of the same build differs from the first: {}", r, first_line_diff(&reference, &o)));
      break;
    }
  }
  let schedules = if tier == Tier::Quick { 8 } else { 40 };
  let mut max_out = 0;
  for sidx in 0..schedules {
    let mut sched = Rng::for_case(seed ^ 0x5eed, k * 1000 + sidx);
    match build_scheduled(&world, &roots, &bcfg, &mut sched) {
      None => {
        direct.push("build did not finish under a completion schedule (poll budget exhausted)".to_string());
        break;
      }
      Some((g, mo)) => {
        n_builds += 1;
        max_out = max_out.max(mo);
        let o = observe(&g);
        if o != reference {
          direct.push(format!("completion schedule {} gives a different result: {}", sidx, first_line_diff(&reference, &o)));
          break;
        }
      }
    }
  }
  let meta = serde_json::json!({"roots": roots, "build": format!("{:?}", bcfg), "world": describe_world(&world)});
  let h = {
    use std::hash::{Hash, Hasher};
    let mut hs = std::collections::hash_map::DefaultHasher::new();
    meta.to_string().hash(&mut hs);
    hs.finish() % 1_000_000_007
  };
  Case {
    input: Sx::atoms([h]),
    obs: Sx::atoms([h]),
    meta,
    nontrivial: max_out >= 3,
    dist: vec![
      ("builds".to_string(), n_builds as u64),
      (format!("max_outstanding_{:02}", max_out.min(12)), 1),
    ],
    direct_violations: direct,
  }
}

fn first_line_diff(a: &str, b: &str) -> String {
  // position of first difference, with context
  let ab = a.as_bytes();
  let bb = b.as_bytes();
  let mut i = 0;
  while i < ab.len() && i < bb.len() && ab[i] == bb[i] {
    i += 1;
  }
  let lo = i.saturating_sub(80);
  format!(
    "at byte {}: ...{} | ...{}",
    i,
    String::from_utf8_lossy(&ab[lo..(i + 80).min(ab.len())]),
    String::from_utf8_lossy(&bb[lo..(i + 80).min(bb.len())])
  )
}

pub fn run(cfg: &RunCfg) {
  let n = if cfg.tier == Tier::Quick { 600 } else { 8000 };
  let tier = cfg.tier;
  run_cases(cfg, n, |seed, k| gen_case(seed, k, tier));
}
