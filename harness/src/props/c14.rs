//! C14: redirect following terminates and all lookups agree with the walk.
use crate::abs::*;
use crate::build::*;
use crate::common::*;
use crate::rng::Rng;
use crate::sexp::Sx;
use crate::world::*;
use deno_graph::*;

/// Worlds built around redirect chains of every length (loader redirects and
/// lockfile-seeded ones), cycles, and failures at the end of a chain.
pub fn gen_chain_world(rng: &mut Rng, tier: Tier) -> (World, Vec<String>, BuildCfg, usize) {
  let mut world = World::default();
  let mut bcfg = BuildCfg { kind: *rng.pick(&[0u8, 0, 1, 2]), ..Default::default() };
  let origin = *rng.pick(&["https://h.test/", "http://h.test/", "https://h.test/sub/"]);
  let n_mod = rng.range(2, 4);
  let mods: Vec<String> = (0..n_mod)
    .map(|k| format!("{}m{}.{}", origin, k, *rng.pick(&["ts", "ts", "js", "d.ts", "json"])))
    .collect();
  let max_len = if tier == Tier::Quick { 13 } else { 26 };
  let n_chains = rng.range(1, 3);
  let mut chain_heads: Vec<String> = vec![];
  let mut all: Vec<String> = mods.clone();
  for c in 0..n_chains {
    let len = match rng.below(10) {
      0..=3 => rng.range(1, 3),
      4..=6 => rng.range(8, 12),
      _ => rng.range(1, max_len),
    };
    let via_lock = rng.chance(40);
    let nodes: Vec<String> = (0..len).map(|i| format!("{}r{}_{}.ts", origin, c, i)).collect();
    // where the chain ends
    let end: String = match rng.below(10) {
      0..=4 => rng.pick(&mods).clone(),
      5 => format!("{}gone{}.ts", origin, c),       // missing
      6 => format!("{}fail{}.ts", origin, c),       // load error
      7 => nodes[rng.below(len)].clone(),           // cycle back into the chain
      8 => nodes[0].clone(),                        // full cycle
      _ => rng.pick(&mods).clone(),
    };
    if end.contains("fail") {
      world.entries.insert(end.clone(), Entry::Error);
    }
    if end.contains("gone") {
      world.entries.insert(end.clone(), Entry::Missing);
    }
    for i in 0..len {
      let to = if i + 1 < len { nodes[i + 1].clone() } else { end.clone() };
      if via_lock && rng.chance(85) {
        bcfg.lock_redirects.push((nodes[i].clone(), to));
      } else {
        world.entries.insert(nodes[i].clone(), Entry::Redirect(to));
      }
    }
    chain_heads.push(nodes[0].clone());
    if len > 3 && rng.chance(40) {
      chain_heads.push(nodes[rng.range(1, len - 1)].clone());
    }
    all.extend(nodes);
    if !all.contains(&end) {
      all.push(end);
    }
  }
  for s in &mods {
    if s.ends_with(".json") {
      world.entries.insert(s.clone(), Entry::Module { src: ModSrc::default(), raw: Some(b"{}".to_vec()), headers: None });
      continue;
    }
    let mut src = ModSrc::default();
    for _ in 0..rng.range(0, 3) {
      let to = if rng.chance(60) { rng.pick(&chain_heads).clone() } else { rng.pick(&all).clone() };
      let form = match rng.below(10) {
        0..=4 => Form::Static,
        5..=6 => Form::Dynamic,
        7 => Form::TypeOnly,
        8 => Form::DenoTypes(rng.pick(&all).clone()),
        _ => Form::Named,
      };
      src.imports.push(Imp { form, text: to });
    }
    if is_js_ext(s) && rng.chance(50) {
      src.self_types = Some(rng.pick(&all).clone());
    }
    world.entries.insert(s.clone(), Entry::Module { src, raw: None, headers: None });
  }
  let mut roots = vec![];
  for _ in 0..rng.range(1, 3) {
    let r = if rng.chance(50) { rng.pick(&chain_heads).clone() } else { rng.pick(&mods).clone() };
    if !roots.contains(&r) {
      roots.push(r);
    }
  }
  let max_redirects = *rng.pick(&[10usize, 10, 10, 3, 25]);
  (world, roots, bcfg, max_redirects)
}

fn tryres(r: Result<Option<&Module>, &ModuleError>, it: &mut Intern) -> Sx {
  match r {
    Ok(None) => Sx::atoms([0]),
    Ok(Some(m)) => Sx::atoms([1, it.spec(m.specifier().as_str())]),
    Err(e) => Sx::atoms([2, it.misc(&module_error_str(e))]),
  }
}

pub fn gen_case(seed: u64, k: u64, tier: Tier) -> Case {
  let mut rng = Rng::for_case(seed, k);
  let (world, roots, bcfg, max_redirects) = gen_chain_world(&mut rng, tier);
  let mut graph = ModuleGraph::new(graph_kind(bcfg.kind));
  if !bcfg.lock_redirects.is_empty() {
    let no_pkgs: Vec<(&deno_semver::jsr::JsrDepPackageReq, &str)> = vec![];
    graph.fill_from_lockfile(FillFromLockfileOptions {
      redirects: bcfg.lock_redirects.iter().map(|(a, b)| (a.as_str(), b.as_str())),
      package_specifiers: no_pkgs.into_iter(),
    });
  }
  let mut loader = WorldLoader::new(&world);
  loader.max_redirects = max_redirects;
  build_with_loader(&mut graph, &loader, &roots, &bcfg);
  let mut known: Vec<String> = world.entries.keys().cloned().collect();
  for (a, b) in &bcfg.lock_redirects {
    known.push(a.clone());
    known.push(b.clone());
  }
  known.push("https://h.test/unknown-to-graph.ts".to_string());
  let mut it = build_intern(&graph, &known);
  let gsx = abs_graph(&graph, &mut it);
  let specs: Vec<(String, u64)> = it.specs.iter().map(|(s, i)| (s.clone(), *i)).collect();
  // the same graph without configured imports: a walk from [s] then shows what s alone reaches
  let mut bare = graph.clone();
  bare.imports.clear();
  let mut qs = vec![];
  let mut obs = vec![];
  let mut direct = vec![];
  for (s, id) in &specs {
    let u = ModuleSpecifier::parse(s).unwrap();
    let r = graph.resolve(&u);
    let rid = match it.spec_opt(r.as_str()) {
      Some(x) => x,
      None => {
        direct.push(format!("resolve({}) returned a specifier unknown to the graph: {}", s, r));
        0
      }
    };
    let get = graph.get(&u).map(|m| it.spec(m.specifier().as_str()));
    let contains = graph.contains(&u);
    let tg = tryres(graph.try_get(&u), &mut it);
    let tp = tryres(graph.try_get_prefer_types(&u), &mut it);
    // what the real walk reaches from s through redirects (dependencies not followed)
    let mut walk_end = None;
    {
      let one = [u.clone()];
      let mut iter = bare.walk(one.iter(), WalkOptions {
        check_js: CheckJsOption::True, follow_dynamic: false, kind: GraphKind::CodeOnly, prefer_fast_check_graph: false });
      while let Some((ws, e)) = iter.next() {
        match e {
          ModuleEntryRef::Redirect(_) => {}
          _ => {
            if walk_end.is_none() {
              walk_end = Some(it.spec(ws.as_str()));
            }
            iter.skip_previous_dependencies();
          }
        }
      }
    }
    let lookups = Sx::L(vec![Sx::A(rid), Sx::opt(get.map(Sx::A)), Sx::b(contains), tg, tp, Sx::opt(walk_end.map(Sx::A))]);
    qs.push(Sx::L(vec![Sx::A(*id), lookups.clone()]));
    obs.push(Sx::L(vec![lookups, Sx::judge(true)]));
  }
  // specifiers()
  let mut sp = vec![];
  for (s, r) in graph.specifiers() {
    let shown = match r {
      Ok(m) => m.specifier().to_string(),
      Err(e) => e.specifier().to_string(),
    };
    sp.push(Sx::atoms([it.spec(s.as_str()), it.spec(&shown)]));
  }
  // resolve_dependency over every module dependency and configured import
  let mut deps = vec![];
  for (s, e) in entries(&graph) {
    if let Ok(m) = e {
      for text in m.dependencies().keys() {
        let tid = it.misc(&format!("text:{}", text));
        let a = graph.resolve_dependency(text, s, false).map(|x| Sx::A(it.spec(x.as_str())));
        let b = graph.resolve_dependency(text, s, true).map(|x| Sx::A(it.spec(x.as_str())));
        deps.push(Sx::L(vec![Sx::A(it.spec(s.as_str())), Sx::A(tid), Sx::opt(a), Sx::opt(b)]));
      }
    }
  }
  for (refr, imp) in &graph.imports {
    for text in imp.dependencies.keys() {
      let tid = it.misc(&format!("text:{}", text));
      let a = graph.resolve_dependency(text, refr, false).map(|x| Sx::A(it.spec(x.as_str())));
      let b = graph.resolve_dependency(text, refr, true).map(|x| Sx::A(it.spec(x.as_str())));
      deps.push(Sx::L(vec![Sx::A(it.spec(refr.as_str())), Sx::A(tid), Sx::opt(a), Sx::opt(b)]));
    }
  }
  obs.push(Sx::L(vec![Sx::set(sp.clone()), Sx::set(deps), Sx::judge(true)]));
  let n_red = graph.redirects.len();
  Case {
    input: Sx::L(vec![gsx, Sx::L(qs), Sx::L(sp)]),
    obs: Sx::L(obs),
    meta: serde_json::json!({
      "roots": roots, "kind": bcfg.kind, "lock_redirects": bcfg.lock_redirects, "max_redirects": max_redirects,
      "world": world.entries.iter().map(|(k, e)| (k.clone(), match e {
        Entry::Module { src, raw, .. } => serde_json::json!(raw.as_ref().map(|b| String::from_utf8_lossy(b).to_string()).unwrap_or_else(|| render(src, is_js_ext(k)))),
        Entry::Redirect(t) => serde_json::json!({"redirect": t}),
        Entry::Missing => serde_json::json!("missing"),
        Entry::Error => serde_json::json!("error"),
        Entry::External => serde_json::json!("external"),
      })).collect::<serde_json::Map<_, _>>(),
      "graph_redirects": graph.redirects.iter().map(|(a, b)| (a.to_string(), serde_json::json!(b.to_string()))).collect::<serde_json::Map<_, _>>(),
      "specs": specs.iter().map(|(s, i)| (i.to_string(), serde_json::json!(s))).collect::<serde_json::Map<_, _>>(),
    }),
    nontrivial: n_red >= 2,
    dist: vec![
      (format!("redirects_{:02}", n_red.min(30)), 1),
      ("lookups".to_string(), specs.len() as u64),
      (format!("max_redirects_{}", max_redirects), 1),
    ],
    direct_violations: direct,
  }
}

pub fn run(cfg: &RunCfg) {
  let n = if cfg.tier == Tier::Quick { 3000 } else { 80000 };
  let tier = cfg.tier;
  run_cases(cfg, n, |seed, k| gen_case(seed, k, tier));
}
