//! C10 - fast-check output has no executable logic and needs no type inference.
//!
//! Every case is one package run through the REAL build + fast check: the spec
//! corpus (tests/specs/graph/fast_check, tests/specs/graph/jsr) first, then
//! generated packages (80 % structured, 20 % adversarial).  Each emitted module
//! is re-parsed with deno_ast and summarised (fcx/sum.rs); the extracted,
//! proved decision procedure `erasedb` judges the summary.  The harness prints
//! `1` for the judgement, so a real output that is not erased is a mismatch on
//! the judgement flag with a replayable input.
use crate::common::*;
use crate::fcx::*;
use crate::rng::Rng;
use crate::sexp::Sx;

pub struct Plan {
  /// generated packages whose emitted modules are judged
  pub n_gen: u64,
  /// one-module packages of public function-likes: model of the transform vs the real transform
  pub n_model: u64,
}

pub fn plan(tier: Tier) -> Plan {
  match tier {
    Tier::Quick => Plan { n_gen: 12000, n_model: 8000 },
    Tier::Thorough => Plan { n_gen: 300000, n_model: 200000 },
  }
}

pub enum CaseSrc {
  Corpus(String, FcWorld),
  Seed(String, FcWorld),
  Gen(pkggen::Package, FcWorld, bool),
}

pub fn case_source(seed: u64, k: u64, corpus: &[SpecCase]) -> CaseSrc {
  if (k as usize) < corpus.len() {
    let c = &corpus[k as usize];
    return CaseSrc::Corpus(c.name.clone(), c.world.clone());
  }
  let seeds = seed_packages();
  let ks = k as usize - corpus.len();
  if ks < seeds.len() {
    let (name, src) = &seeds[ks];
    return CaseSrc::Seed(name.to_string(), jsr_world(&[src.clone()]));
  }
  let mut rng = Rng::for_case(seed, k);
  let adversarial = rng.chance(20);
  let pkg = pkggen::gen_package(&mut rng, adversarial);
  let src = pkg_src(&pkg);
  // workspace mode collects ALL diagnostics; registry mode stops at the first
  let workspace = rng.chance(30);
  let world = if workspace { workspace_world(&[src]) } else { jsr_world(&[src]) };
  CaseSrc::Gen(pkg, world, workspace)
}

fn gen_case(seed: u64, k: u64, corpus: &[SpecCase]) -> Case {
  let src = case_source(seed, k, corpus);
  let (world, mut meta, mut dist) = match &src {
    CaseSrc::Corpus(name, w) => (w.clone(), serde_json::json!({"corpus": name}), vec![("corpus".to_string(), 1u64)]),
    CaseSrc::Seed(name, w) => (
      w.clone(),
      serde_json::json!({"seed_package": name, "files": w.files.iter().map(|f| (f.specifier.clone(), String::from_utf8_lossy(&f.content).to_string())).collect::<Vec<_>>()}),
      vec![("seed-package".to_string(), 1u64)],
    ),
    CaseSrc::Gen(pkg, w, workspace) => {
      let mut d: Vec<(String, u64)> = pkg.features.iter().map(|(f, n)| (format!("gen:{}", f), *n)).collect();
      d.push((if *workspace { "mode:workspace".into() } else { "mode:registry".into() }, 1));
      d.push((if pkg.intent.expect_diagnostic { "gen-expects-diagnostic".into() } else { "gen-expects-output".into() }, 1));
      (
        w.clone(),
        serde_json::json!({
          "generated": true,
          "workspace": workspace,
          "modules": pkg.modules.iter().map(|m| (m.path.clone(), pkggen::p_module(m))).collect::<Vec<_>>(),
          "exports": pkg.exports,
        }),
        d,
      )
    }
  };
  let run = run_world(&world);
  let mut direct = vec![];
  let mut inputs = vec![];
  let mut obs = vec![];
  let mut emitted_meta = vec![];
  let mut n_fns = 0u64;
  let mut n_classes = 0u64;
  let mut diag_codes: Vec<String> = vec![];
  if !run.graph_errors.is_empty() {
    dist.push(("graph-errors (fast check not run)".into(), 1));
  }
  let mut n_emitted = 0;
  let mut n_diag_modules = 0;
  for m in &run.modules {
    match &m.out {
      FcOut::Untouched => {}
      FcOut::Diagnostics(ds) => {
        n_diag_modules += 1;
        for d in ds {
          diag_codes.push(d.code.clone());
          dist.push((format!("diagnostic:{}", d.code), 1));
        }
      }
      FcOut::Emitted { text, .. } => {
        n_emitted += 1;
        let mut int = sum::Interner::new();
        match sum::summarise(&mut int, &m.specifier, m.media_type, text) {
          Ok((sx, st)) => {
            n_fns += st.fns;
            n_classes += st.classes;
            dist.push(("emitted-function-likes".into(), st.fns));
            dist.push(("emitted-classes".into(), st.classes));
            dist.push(("emitted-class-members".into(), st.members));
            dist.push(("emitted-variables".into(), st.vars));
            dist.push(("emitted-placeholders".into(), st.placeholders));
            dist.push(("emitted-ambient-items".into(), st.ambient_items));
            dist.push(("emitted-arrows".into(), st.arrows));
            dist.push(("emitted-nonliteral-enum-initialisers".into(), st.enum_inits_nonliteral));
            if st.stmts > 0 {
              dist.push(("emitted-non-declaration-statements".into(), st.stmts));
            }
            inputs.push(sx);
            obs.push(Sx::L(vec![Sx::A(st.fns), Sx::judge(true)]));
            emitted_meta.push(serde_json::json!({"specifier": m.specifier, "emitted": text}));
          }
          Err(e) => {
            direct.push(format!("emitted fast-check module {} does not parse: {}", m.specifier, e));
          }
        }
      }
    }
  }
  dist.push((
    match (n_emitted > 0, n_diag_modules > 0) {
      (true, false) => "package:emitted",
      (false, true) => "package:diagnostics",
      (true, true) => "package:emitted+diagnostics (several packages)",
      (false, false) => "package:untouched",
    }
    .into(),
    1,
  ));
  dist.push(("emitted-modules".into(), n_emitted));
  meta["emitted"] = serde_json::Value::Array(emitted_meta);
  meta["diagnostics"] = serde_json::json!(diag_codes);
  meta["graph_errors"] = serde_json::json!(run.graph_errors);
  Case {
    input: Sx::L(vec![Sx::A(0), Sx::L(inputs)]),
    obs: Sx::L(obs),
    meta,
    nontrivial: n_emitted > 0 && (n_fns > 0 || n_classes > 0),
    dist,
    direct_violations: direct,
  }
}

fn diag_code(c: &str) -> u64 {
  match c {
    "missing-explicit-type" => 1,
    "missing-explicit-return-type" => 2,
    "unsupported-destructuring" => 3,
    _ => 99,
  }
}

fn one_module_world(text: &str) -> FcWorld {
  workspace_world(&[PkgSrc {
    name: "@scope/a".into(),
    version: "1.0.0".into(),
    exports: vec![(".".into(), "./mod.ts".into())],
    files: vec![("mod.ts".into(), text.to_string())],
  }])
}

fn parse_ts(text: &str) -> Result<deno_ast::ParsedSource, String> {
  deno_ast::parse_program(deno_ast::ParseParams {
    specifier: deno_ast::ModuleSpecifier::parse("file:///scope_a/mod.ts").unwrap(),
    text: text.into(),
    media_type: deno_ast::MediaType::TypeScript,
    capture_tokens: false,
    scope_analysis: false,
    maybe_syntax: None,
  })
  .map_err(|e| e.to_string())
}

/// Model stream: the Coq model of transform_fn / transform_arrow / handle_param_pat / the
/// constructor part of transform_class_member is run on the source summary of every public
/// function-like; the real transform (collect mode: workspace fast check) supplies, per unit, the
/// diagnostics it raised or - from a run without the diagnosed declarations - the emitted shape.
fn model_case(seed: u64, k: u64, exhaustive_index: Option<usize>) -> Case {
  let mut rng = Rng::for_case(seed, k);
  let (text, feats) = match exhaustive_index {
    Some(j) => (pkggen::exhaustive_module(j), vec![("exhaustive-small-domain-case".to_string(), 1u64)]),
    None => pkggen::gen_fn_package(&mut rng),
  };
  let mut dist: Vec<(String, u64)> = feats.iter().map(|(f, n)| (format!("model-gen:{}", f), *n)).collect();
  dist.push(("model-stream".into(), 1));
  let mut meta = serde_json::json!({"model_stream": true, "source": text});
  let mut direct = vec![];
  let parsed = match parse_ts(&text) {
    Ok(p) => p,
    Err(e) => {
      dist.push(("model-stream:source-does-not-parse".into(), 1));
      meta["parse_error"] = serde_json::json!(e);
      return Case { input: Sx::L(vec![Sx::A(1), Sx::L(vec![])]), obs: Sx::L(vec![]), meta, nontrivial: false, dist, direct_violations: direct };
    }
  };
  let units = srcsum::source_units(&parsed);
  let run = run_world(&one_module_world(&text));
  let Some(module) = run.modules.iter().find(|m| m.specifier.ends_with("/mod.ts") && m.specifier.contains("scope_a")) else {
    dist.push(("model-stream:no-module".into(), 1));
    return Case { input: Sx::L(vec![Sx::A(1), Sx::L(vec![])]), obs: Sx::L(vec![]), meta, nontrivial: false, dist, direct_violations: direct };
  };
  // diagnostics per unit (innermost unit containing the diagnostic's start)
  let mut unit_codes: Vec<Vec<u64>> = vec![vec![]; units.len()];
  let mut dirty_items: Vec<(usize, usize)> = vec![];
  let mut stray = 0;
  if let FcOut::Diagnostics(ds) = &module.out {
    for d in ds {
      let Some((st, _)) = d.range else {
        stray += 1;
        continue;
      };
      let mut best: Option<usize> = None;
      for (i, u) in units.iter().enumerate() {
        if u.range.0 <= st && st < u.range.1 {
          if best.map(|b| units[b].range.1 - units[b].range.0 > u.range.1 - u.range.0).unwrap_or(true) {
            best = Some(i);
          }
        }
      }
      match best {
        Some(i) => {
          unit_codes[i].push(diag_code(&d.code));
          dirty_items.push(units[i].item_range);
        }
        None => {
          stray += 1;
          // a diagnostic outside every unit: its whole top-level item is left out of the second run
          dirty_items.push((st, st + 1));
        }
      }
      dist.push((format!("model-stream:diagnostic:{}", d.code), 1));
    }
  }
  if stray > 0 {
    dist.push(("model-stream:diagnostics-outside-units".into(), stray));
  }
  // emitted text for the clean units
  let any_diag = matches!(module.out, FcOut::Diagnostics(_));
  let emitted_text: Option<String> = match &module.out {
    FcOut::Emitted { text, .. } => Some(text.clone()),
    FcOut::Diagnostics(_) => {
      // second run without the top-level items that contain a diagnostic
      let mut kept = String::new();
      if let deno_ast::ProgramRef::Module(m) = parsed.program_ref() {
        let start = parsed.text_info_lazy().range().start.as_byte_pos().0;
        for item in &m.body {
          use deno_ast::swc::common::Spanned;
          let sp = item.span();
          let (lo, hi) = ((sp.lo.0 - start) as usize, (sp.hi.0 - start) as usize);
          let dirty = dirty_items.iter().any(|(a, b)| lo <= *a && *a < hi || (*a <= lo && lo < *b));
          if !dirty {
            kept.push_str(&text[lo..hi]);
            kept.push('\n');
          }
        }
      }
      let run2 = run_world(&one_module_world(&kept));
      match run2.modules.iter().find(|m| m.specifier.contains("scope_a")).map(|m| &m.out) {
        Some(FcOut::Emitted { text, .. }) => Some(text.clone()),
        Some(FcOut::Diagnostics(ds)) => {
          dist.push(("model-stream:second-run-still-diagnosed".into(), 1));
          meta["second_run_diagnostics"] = serde_json::json!(ds.iter().map(|d| d.code.clone()).collect::<Vec<_>>());
          None
        }
        _ => None,
      }
    }
    FcOut::Untouched => None,
  };
  let emitted_parsed = emitted_text.as_ref().and_then(|t| parse_ts(t).ok());
  if emitted_text.is_some() && emitted_parsed.is_none() {
    direct.push("emitted module of the model stream does not parse".to_string());
  }
  let mut inputs = vec![];
  let mut obs = vec![];
  let mut n_ok = 0u64;
  let mut n_err = 0u64;
  let mut int = sum::Interner::new();
  for (i, u) in units.iter().enumerate() {
    if !unit_codes[i].is_empty() {
      inputs.push(u.input.clone());
      obs.push(Sx::L(vec![Sx::A(1), Sx::atoms(unit_codes[i].iter().copied())]));
      n_err += 1;
      continue;
    }
    let item_dirty = any_diag && dirty_items.iter().any(|(a, _)| u.item_range.0 <= *a && *a < u.item_range.1);
    if item_dirty {
      dist.push(("model-stream:clean-unit-in-diagnosed-declaration (not observable)".into(), 1));
      continue;
    }
    let Some(ep) = &emitted_parsed else { continue };
    let mut s = sum::Summariser::new(&mut int);
    match srcsum::emitted_unit_shape(ep, &u.path, &u.prop_names, &mut s) {
      Some(shape) => {
        inputs.push(u.input.clone());
        obs.push(shape);
        n_ok += 1;
      }
      None => {
        direct.push(format!("unit {:?} has no diagnostic but is missing from the emitted module", u.path));
      }
    }
  }
  dist.push(("model-stream:units-with-diagnostics".into(), n_err));
  dist.push(("model-stream:units-emitted".into(), n_ok));
  meta["emitted"] = serde_json::json!(emitted_text);
  meta["units"] = serde_json::json!(units.iter().enumerate().map(|(i, u)| serde_json::json!({"decl": u.path.decl, "member": u.path.member, "diagnostics": unit_codes[i]})).collect::<Vec<_>>());
  Case {
    input: Sx::L(vec![Sx::A(1), Sx::L(inputs)]),
    obs: Sx::L(obs),
    meta,
    nontrivial: n_ok > 0 && n_err > 0,
    dist,
    direct_violations: direct,
  }
}

pub fn run(cfg: &RunCfg) {
  let corpus = corpus();
  let p = plan(cfg.tier);
  let n_judged = corpus.len() as u64 + seed_packages().len() as u64 + p.n_gen;
  // the exhaustively enumerated small domain of function-likes comes first in the model stream
  let n_ex = ((pkggen::exhaustive_count() + pkggen::EX_PER_CASE - 1) / pkggen::EX_PER_CASE) as u64;
  let n = n_judged + n_ex + p.n_model;
  let lean = cfg.tier == Tier::Thorough && cfg.only_case.is_none();
  run_cases(cfg, n, |seed, k| {
    let mut c = if k < n_judged {
      gen_case(seed, k, &corpus)
    } else if k < n_judged + n_ex {
      model_case(seed, k, Some((k - n_judged) as usize))
    } else {
      model_case(seed, k, None)
    };
    if lean {
      lean_meta(&mut c.meta);
    }
    c
  });
  if cfg.only_case.is_none() {
    let path = cfg.out_dir.join("stats.json");
    let mut stats: serde_json::Value = serde_json::from_str(&std::fs::read_to_string(&path).unwrap()).unwrap();
    stats["distribution"]["exhaustive"] = serde_json::json!(format!(
      "model stream, first {} cases: ALL {} combinations of (7 kinds x 5 return annotations x plain/async/generator x 10 body shapes x 3 parameter lists) + (7 kinds x 30 parameter lists x with/without return type) + (arrow: 5 return annotations x sync/async x 8 expression bodies), minus syntactically impossible ones",
      n_ex,
      pkggen::exhaustive_count()
    ));
    std::fs::write(&path, serde_json::to_string_pretty(&stats).unwrap()).unwrap();
  }
}
