//! C10 - fast-check output has no executable logic and needs no type inference.
//!
//! Every case is one package run through the REAL build + fast check: the spec
//! corpus (tests/specs/graph/fast_check, tests/specs/graph/jsr) first, then
//! generated packages (80 % structured, 20 % adversarial).  Each emitted module
//! is re-parsed with deno_ast and summarised (fcheck/sum.rs); the extracted,
//! proved decision procedure `erasedb` judges the summary.  The harness prints
//! `1` for the judgement, so a real output that is not erased is a mismatch on
//! the judgement flag with a replayable input.
use crate::common::*;
use crate::fcheck::*;
use crate::rng::Rng;
use crate::sexp::Sx;

pub struct Plan {
  pub n_gen: u64,
}

pub fn plan(tier: Tier) -> Plan {
  match tier {
    Tier::Quick => Plan { n_gen: 1500 },
    Tier::Thorough => Plan { n_gen: 30000 },
  }
}

pub enum CaseSrc {
  Corpus(String, FcWorld),
  Seed(String, FcWorld),
  Gen(pkggen::Package, FcWorld, bool),
}

pub fn case_source(seed: u64, k: u64, corpus: &[SpecCase]) -> CaseSrc {
  if (k as usize) < corpus.len() {
    let c = &corpus[k as usize];
    return CaseSrc::Corpus(c.name.clone(), c.world.clone());
  }
  let seeds = seed_packages();
  let ks = k as usize - corpus.len();
  if ks < seeds.len() {
    let (name, src) = &seeds[ks];
    return CaseSrc::Seed(name.to_string(), jsr_world(&[src.clone()]));
  }
  let mut rng = Rng::for_case(seed, k);
  let adversarial = rng.chance(20);
  let pkg = pkggen::gen_package(&mut rng, adversarial);
  let src = pkg_src(&pkg);
  // workspace mode collects ALL diagnostics; registry mode stops at the first
  let workspace = rng.chance(30);
  let world = if workspace { workspace_world(&[src]) } else { jsr_world(&[src]) };
  CaseSrc::Gen(pkg, world, workspace)
}

fn gen_case(seed: u64, k: u64, corpus: &[SpecCase]) -> Case {
  let src = case_source(seed, k, corpus);
  let (world, mut meta, mut dist) = match &src {
    CaseSrc::Corpus(name, w) => (w.clone(), serde_json::json!({"corpus": name}), vec![("corpus".to_string(), 1u64)]),
    CaseSrc::Seed(name, w) => (
      w.clone(),
      serde_json::json!({"seed_package": name, "files": w.files.iter().map(|f| (f.specifier.clone(), String::from_utf8_lossy(&f.content).to_string())).collect::<Vec<_>>()}),
      vec![("seed-package".to_string(), 1u64)],
    ),
    CaseSrc::Gen(pkg, w, workspace) => {
      let mut d: Vec<(String, u64)> = pkg.features.iter().map(|(f, n)| (format!("gen:{}", f), *n)).collect();
      d.push((if *workspace { "mode:workspace".into() } else { "mode:registry".into() }, 1));
      d.push((if pkg.intent.expect_diagnostic { "gen-expects-diagnostic".into() } else { "gen-expects-output".into() }, 1));
      (
        w.clone(),
        serde_json::json!({
          "generated": true,
          "workspace": workspace,
          "modules": pkg.modules.iter().map(|m| (m.path.clone(), pkggen::p_module(m))).collect::<Vec<_>>(),
          "exports": pkg.exports,
        }),
        d,
      )
    }
  };
  let run = run_world(&world);
  let mut direct = vec![];
  let mut inputs = vec![];
  let mut obs = vec![];
  let mut emitted_meta = vec![];
  let mut n_fns = 0u64;
  let mut n_classes = 0u64;
  let mut diag_codes: Vec<String> = vec![];
  if !run.graph_errors.is_empty() {
    dist.push(("graph-errors (fast check not run)".into(), 1));
  }
  let mut n_emitted = 0;
  let mut n_diag_modules = 0;
  for m in &run.modules {
    match &m.out {
      FcOut::Untouched => {}
      FcOut::Diagnostics(ds) => {
        n_diag_modules += 1;
        for d in ds {
          diag_codes.push(d.code.clone());
          dist.push((format!("diagnostic:{}", d.code), 1));
        }
      }
      FcOut::Emitted { text, .. } => {
        n_emitted += 1;
        let mut int = sum::Interner::new();
        match sum::summarise(&mut int, &m.specifier, m.media_type, text) {
          Ok((sx, st)) => {
            n_fns += st.fns;
            n_classes += st.classes;
            dist.push(("emitted-function-likes".into(), st.fns));
            dist.push(("emitted-classes".into(), st.classes));
            dist.push(("emitted-class-members".into(), st.members));
            dist.push(("emitted-variables".into(), st.vars));
            dist.push(("emitted-placeholders".into(), st.placeholders));
            dist.push(("emitted-ambient-items".into(), st.ambient_items));
            dist.push(("emitted-arrows".into(), st.arrows));
            dist.push(("emitted-nonliteral-enum-initialisers".into(), st.enum_inits_nonliteral));
            if st.stmts > 0 {
              dist.push(("emitted-non-declaration-statements".into(), st.stmts));
            }
            inputs.push(sx);
            obs.push(Sx::L(vec![Sx::A(st.fns), Sx::judge(true)]));
            emitted_meta.push(serde_json::json!({"specifier": m.specifier, "emitted": text}));
          }
          Err(e) => {
            direct.push(format!("emitted fast-check module {} does not parse: {}", m.specifier, e));
          }
        }
      }
    }
  }
  dist.push((
    match (n_emitted > 0, n_diag_modules > 0) {
      (true, false) => "package:emitted",
      (false, true) => "package:diagnostics",
      (true, true) => "package:emitted+diagnostics (several packages)",
      (false, false) => "package:untouched",
    }
    .into(),
    1,
  ));
  dist.push(("emitted-modules".into(), n_emitted));
  meta["emitted"] = serde_json::Value::Array(emitted_meta);
  meta["diagnostics"] = serde_json::json!(diag_codes);
  meta["graph_errors"] = serde_json::json!(run.graph_errors);
  Case {
    input: Sx::L(vec![Sx::A(0), Sx::L(inputs)]),
    obs: Sx::L(obs),
    meta,
    nontrivial: n_emitted > 0 && (n_fns > 0 || n_classes > 0),
    dist,
    direct_violations: direct,
  }
}

pub fn run(cfg: &RunCfg) {
  let corpus = corpus();
  let p = plan(cfg.tier);
  let n = corpus.len() as u64 + seed_packages().len() as u64 + p.n_gen;
  run_cases(cfg, n, |seed, k| gen_case(seed, k, &corpus));
}
