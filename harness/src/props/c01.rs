//! C01: a built graph is exactly the dependency closure of its roots
//! (correspondence of the builder model with the real builder).
use crate::abs::*;
use crate::absworld::*;
use crate::build::*;
use crate::common::*;
use crate::props::c17::describe_world;
use crate::rng::Rng;
use crate::sexp::Sx;
use crate::world::*;
use deno_graph::*;
use std::collections::BTreeSet;
use std::collections::HashMap;

pub struct BuiltCase {
  /// lockfile remote checksums; None = no locker
  pub lock: Option<std::collections::BTreeMap<String, String>>,
  pub world: World,
  pub roots: Vec<String>,
  pub bcfg: BuildCfg,
  pub unstable: (bool, bool, bool),
  pub max_redirects: usize,
}

pub fn gen_build_case(rng: &mut Rng, tier: Tier) -> BuiltCase {
  let cfg = GenCfg { assets: true, max_modules: if tier == Tier::Quick { 7 } else { 11 }, redirects: true, faults: true, same_attr_proviso: true };
  let (mut world, roots) = gen_world(rng, &cfg);
  // a few malformed jsr:/npm: and node: specifiers as import targets are exercised through extra modules
  if rng.chance(15) {
    let k = world.entries.len();
    let spec = format!("file:///p/extra{}.ts", k);
    let mut src = ModSrc::default();
    src.imports.push(Imp { form: Form::Static, text: (*rng.pick(&["jsr:", "npm:", "node:path", "npm:@/bad@@"])).to_string() });
    world.entries.insert(spec, Entry::Module { src, raw: None, headers: None });
  }
  // modules answered under a final specifier other than the requested one (a documented loader
  // behaviour: "the returned specifier is the final specifier")
  if rng.chance(20) {
    let mods: Vec<String> = world
      .entries
      .iter()
      .filter(|(s, e)| matches!(e, Entry::Module { .. }) && attr_class_target(s, true) == 0 && !s.ends_with(".json"))
      .map(|(s, _)| s.clone())
      .collect();
    let all: Vec<String> = world.entries.keys().filter(|s| attr_class_target(s, true) == 0 && !s.ends_with(".json")).cloned().collect();
    for _ in 0..rng.range(1, 2) {
      if mods.is_empty() {
        break;
      }
      let from = rng.pick(&mods).clone();
      let ext = from.rsplit('.').next().unwrap_or("ts").to_string();
      let to = if rng.chance(50) { rng.pick(&all).clone() } else { format!("https://h.test/final{}.{}", rng.below(3), ext) };
      if to != from {
        // a fresh final specifier serves the same module when asked directly (a coherent loader);
        // an existing one keeps its own answer
        if !world.entries.contains_key(&to) {
          let e = world.entries.get(&from).cloned().unwrap();
          world.entries.insert(to.clone(), e);
        }
        world.final_specifiers.insert(from, to);
      }
    }
  }
  let roots: Vec<String> = {
    let r: Vec<String> = roots.iter().filter(|r| attr_class_target(r, true) == 0).cloned().collect();
    if r.is_empty() { vec!["https://h.test/nowhere.ts".to_string()] } else { r }
  };
  let mut bcfg = BuildCfg {
    kind: *rng.pick(&[0u8, 0, 1, 2]),
    is_dynamic: rng.chance(10),
    skip_dynamic_deps: rng.chance(10),
    ..Default::default()
  };
  let plain: Vec<String> = world.entries.keys().filter(|s| attr_class_target(s, true) == 0).cloned().collect();
  if rng.chance(25) && !plain.is_empty() {
    bcfg.imports.push(("file:///p/deno.json".to_string(), vec![rng.pick(&plain).clone()]));
  }
  let unstable = (rng.chance(50), rng.chance(50), false);
  let max_redirects = *rng.pick(&[10usize, 10, 2, 0]);
  // valid npm: specifiers (no npm resolver: the loader answers them) and, with jsr specifiers passed
  // through, valid jsr: specifiers (marked external at once); drawn last so that the rest of the world
  // does not depend on them
  let mut roots = roots;
  if rng.chance(14) {
    world.passthrough_jsr = rng.chance(65);
    let k = world.entries.len();
    let spec = format!("file:///p/pkgs{}.ts", k);
    let mut src = ModSrc::default();
    for _ in 0..rng.range(1, 3) {
      let form = if rng.chance(25) { Form::Dynamic } else { Form::Static };
      let text = if world.passthrough_jsr && rng.chance(55) {
        (*rng.pick(&["jsr:@s/a@1", "jsr:@s/a@^1.2/sub", "jsr:@s/b", "jsr:@s/a@latest", "jsr:@s/a@1"])).to_string()
      } else {
        (*rng.pick(&["npm:chalk@5", "npm:@types/node@^20/fs", "npm:left-pad", "npm:chalk@5"])).to_string()
      };
      if text.starts_with("npm:") && !world.entries.contains_key(&text) {
        match rng.below(10) {
          0..=5 => {
            world.entries.insert(text.clone(), Entry::External);
          }
          6 => {
            world.entries.insert(text.clone(), Entry::Missing);
          }
          7 => {
            world.entries.insert(text.clone(), Entry::Error);
          }
          _ => {} // nothing served
        }
      }
      src.imports.push(Imp { form, text });
    }
    world.entries.insert(spec.clone(), Entry::Module { src, raw: None, headers: None });
    roots.push(spec);
    // half of these worlds are built with an npm resolver: valid npm: specifiers then go to it instead
    // of the loader (static ones in one batch, dynamic ones one by one)
    if rng.chance(50) {
      let mut answers = std::collections::BTreeMap::new();
      for r in ["chalk@5", "@types/node@^20", "left-pad"] {
        match rng.below(10) {
          0 | 1 => {
            answers.insert(r.to_string(), 1u8);
          }
          2 => {
            answers.insert(r.to_string(), 2u8);
          }
          _ => {}
        }
      }
      world.npm = Some(answers);
    }
  } else if rng.chance(4) {
    // a resolver with nothing to resolve (the builder still calls it with the empty set)
    world.npm = Some(Default::default());
  }
  // WebAssembly modules: a valid binary whose imports name a module of the world (the imports of a
  // wasm module are its dependencies), or bytes the wasm parser rejects
  if rng.chance(14) {
    let plain: Vec<String> = world.entries.keys().filter(|s| !s.starts_with("npm:") && !s.starts_with("jsr:") && attr_class_target(s, true) == 0 && !s.ends_with(".json")).cloned().collect();
    let k = world.entries.len();
    let wasm_spec = format!("{}w{}.wasm", if rng.chance(50) { "file:///p/" } else { "https://h.test/" }, k);
    let bytes: Vec<u8> = if rng.chance(80) {
      let mut b = vec![0x00, 0x61, 0x73, 0x6d, 0x01, 0x00, 0x00, 0x00, 0x01, 0x04, 0x01, 0x60, 0x00, 0x00];
      // import section: functions imported from other modules
      let n_imp = rng.range(1, 2); // at least one import, re-exported: the generated declaration text is never empty
      let mut sec = vec![n_imp as u8];
      for i in 0..n_imp {
        let target = if !plain.is_empty() && rng.chance(80) { rng.pick(&plain).clone() } else { "https://h.test/nowhere.ts".to_string() };
        let module = if rng.chance(50) && target.starts_with(origin_of_spec(&wasm_spec)) { format!("./{}", &target[origin_of_spec(&wasm_spec).len()..]) } else { target };
        sec.push(module.len() as u8);
        sec.extend(module.as_bytes());
        sec.push(1);
        sec.push(b'a' + i as u8);
        sec.push(0x00);
        sec.push(0x00);
      }
      if n_imp > 0 {
        b.push(0x02);
        b.push(sec.len() as u8);
        b.extend(sec);
        // export the first imported function
        b.extend([0x07, 0x05, 0x01, 0x01, b'g', 0x00, 0x00]);
      }
      b
    } else {
      b"\0asm not really".to_vec()
    };
    world.entries.insert(wasm_spec.clone(), Entry::Module { src: ModSrc::default(), raw: Some(bytes), headers: None });
    let user = format!("file:///p/wasmuser{}.ts", k);
    let mut src = ModSrc::default();
    src.imports.push(Imp { form: rng.pick(&[Form::Static, Form::Named, Form::Dynamic, Form::TypeOnly, Form::Named]).clone(), text: wasm_spec.clone() });
    // source-phase imports (`import source w from "x"`): of a WebAssembly file nothing else imports
    // (an asset load), and of something that is not WebAssembly (an error entry)
    if rng.chance(50) {
      let t = format!("file:///p/wsp{}.wasm", k);
      world.entries.insert(t.clone(), Entry::Module { src: ModSrc::default(), raw: Some(vec![0x00, 0x61, 0x73, 0x6d, 0x01, 0x00, 0x00, 0x00]), headers: None });
      src.imports.push(Imp { form: Form::SourcePhase, text: t });
    }
    if rng.chance(30) {
      let t = format!("file:///p/spx{}.ts", k);
      world.entries.insert(t.clone(), Entry::Module { src: ModSrc::default(), raw: None, headers: None });
      src.imports.push(Imp { form: Form::SourcePhase, text: t });
    }
    // something that is not WebAssembly, imported at source phase (an error filed at the target) AND as an
    // ordinary module that has a dependency of its own: which request comes first decides what the error
    // replaces (known finding F-C01c; only in C01's own stream: in histories and alternative executions the
    // same mechanism shows as order dependence, which those checks do not classify)
    if SPM_WORLDS.load(std::sync::atomic::Ordering::Relaxed) && rng.chance(30) {
      let t = format!("file:///p/spm{}.ts", k);
      let dep = format!("file:///p/spmdep{}.ts", k);
      world.entries.insert(dep.clone(), Entry::Module { src: ModSrc::default(), raw: None, headers: None });
      let mut ts = ModSrc::default();
      ts.imports.push(Imp { form: Form::Static, text: dep });
      world.entries.insert(t.clone(), Entry::Module { src: ts, raw: None, headers: None });
      let sp = Imp { form: if rng.chance(60) { Form::SourcePhase } else { Form::DynSourcePhase }, text: t.clone() };
      let reg = Imp { form: if rng.chance(60) { Form::Static } else { Form::Dynamic }, text: t.clone() };
      if rng.chance(50) {
        src.imports.push(reg);
        let other = format!("file:///p/spmother{}.ts", k);
        let mut o = ModSrc::default();
        o.imports.push(sp);
        world.entries.insert(other.clone(), Entry::Module { src: o, raw: None, headers: None });
        src.imports.push(Imp { form: Form::Static, text: other });
      } else {
        src.imports.push(sp);
        let other = format!("file:///p/spmother{}.ts", k);
        let mut o = ModSrc::default();
        o.imports.push(reg);
        world.entries.insert(other.clone(), Entry::Module { src: o, raw: None, headers: None });
        src.imports.push(Imp { form: Form::Static, text: other });
      }
    }
    // a WebAssembly file imported BOTH at source phase and as an ordinary module, statically or dynamically,
    // from one module (one dependency with two imports) or from two (which request comes first matters to
    // the builder: asset load first, module load later, or a dynamic branch queued by either)
    if rng.chance(60) {
      let t = format!("file:///p/wmx{}.wasm", k);
      world.entries.insert(t.clone(), Entry::Module { src: ModSrc::default(), raw: Some(vec![0x00, 0x61, 0x73, 0x6d, 0x01, 0x00, 0x00, 0x00]), headers: None });
      let sp_form = if rng.chance(50) { Form::SourcePhase } else { Form::DynSourcePhase };
      let reg_form = rng.pick(&[Form::Static, Form::Dynamic, Form::Dynamic, Form::Named]).clone();
      let other = format!("file:///p/wasmother{}.ts", k);
      match rng.below(4) {
        0 => {
          // both imports in one module: one dependency entry
          if rng.chance(50) {
            src.imports.push(Imp { form: sp_form, text: t.clone() });
            src.imports.push(Imp { form: reg_form, text: t.clone() });
          } else {
            src.imports.push(Imp { form: reg_form, text: t.clone() });
            src.imports.push(Imp { form: sp_form, text: t.clone() });
          }
        }
        1 => {
          // source phase here, ordinary import in a module imported later
          src.imports.push(Imp { form: sp_form, text: t.clone() });
          let mut o = ModSrc::default();
          o.imports.push(Imp { form: reg_form, text: t.clone() });
          world.entries.insert(other.clone(), Entry::Module { src: o, raw: None, headers: None });
          src.imports.push(Imp { form: if rng.chance(50) { Form::Static } else { Form::Dynamic }, text: other.clone() });
        }
        2 => {
          // ordinary import here, source phase in a module imported later
          src.imports.push(Imp { form: reg_form, text: t.clone() });
          let mut o = ModSrc::default();
          o.imports.push(Imp { form: sp_form, text: t.clone() });
          world.entries.insert(other.clone(), Entry::Module { src: o, raw: None, headers: None });
          src.imports.push(Imp { form: if rng.chance(50) { Form::Static } else { Form::Dynamic }, text: other.clone() });
        }
        _ => {
          // the other module first
          let mut o = ModSrc::default();
          o.imports.push(Imp { form: sp_form, text: t.clone() });
          world.entries.insert(other.clone(), Entry::Module { src: o, raw: None, headers: None });
          src.imports.push(Imp { form: if rng.chance(50) { Form::Static } else { Form::Dynamic }, text: other.clone() });
          src.imports.push(Imp { form: reg_form, text: t.clone() });
        }
      }
    }
    world.entries.insert(user.clone(), Entry::Module { src, raw: None, headers: None });
    roots.push(if rng.chance(25) { wasm_spec } else { user });
  }
  // a resolver (import-map style): bare specifiers mapped to modules of the world, to nothing, or
  // refused; types for untyped modules; a default JSX import source
  if rng.chance(12) {
    let mut cfg = ResolverCfg::default();
    // targets the resolver maps to are imported without a `type` attribute: only modules that nobody
    // imports with one qualify (the same-attribute proviso of C01 / C19)
    let mods: Vec<String> = world.entries.keys().filter(|s| !s.starts_with("npm:") && !s.starts_with("jsr:") && attr_class_target(s, true) == 0).cloned().collect();
    if !mods.is_empty() {
      cfg.map.insert("lib".into(), Some(rng.pick(&mods).clone()));
      if rng.chance(60) {
        cfg.map.insert("lib/other".into(), Some(rng.pick(&mods).clone()));
      }
    }
    cfg.map.insert("lib/absent".into(), Some("https://h.test/not-served.ts".into()));
    cfg.map.insert("blocked".into(), None);
    for s in &mods {
      let untyped = [".js", ".jsx", ".mjs", ".cjs"].iter().any(|e| s.ends_with(e));
      if untyped && rng.chance(45) {
        cfg.types.insert(s.clone(), match rng.below(5) {
          0 => None,
          1 => Some("https://h.test/not-served.d.ts".into()),
          _ => Some(rng.pick(&mods).clone()),
        });
      }
    }
    if rng.chance(40) {
      cfg.jsx_source = Some("https://h.test/jsx".into());
      if rng.chance(50) {
        cfg.jsx_types = Some("https://h.test/jsx-types".into());
      }
    }
    let k = world.entries.len();
    let spec = format!("file:///p/bare{}.ts", k);
    let mut src = ModSrc::default();
    for _ in 0..rng.range(1, 4) {
      let form = match rng.below(5) {
        0 => Form::Dynamic,
        1 => Form::TypeOnly,
        2 => Form::Named,
        _ => Form::Static,
      };
      let text = (*rng.pick(&["lib", "lib", "lib/other", "lib/absent", "blocked", "unmapped"])).to_string();
      src.imports.push(Imp { form, text });
    }
    world.entries.insert(spec.clone(), Entry::Module { src, raw: None, headers: None });
    roots.push(spec);
    world.resolver = Some(cfg);
  }
  BuiltCase { lock: None, world, roots, bcfg, unstable, max_redirects }
}

fn origin_of_spec(spec: &str) -> &str {
  match spec.rfind('/') {
    Some(i) => &spec[..=i],
    None => spec,
  }
}

pub fn real_build(c: &BuiltCase, graph: &mut ModuleGraph, roots: &[String], imports: &[(String, Vec<String>)]) -> Vec<LoadCall> {
  real_build_locked(c, graph, roots, imports).0
}

/// Returns the loader calls and the locker's set_remote_checksum calls.
pub fn real_build_locked(c: &BuiltCase, graph: &mut ModuleGraph, roots: &[String], imports: &[(String, Vec<String>)]) -> (Vec<LoadCall>, Vec<(String, String)>) {
  let mut locker = LogLocker::default();
  if let Some(l) = &c.lock {
    locker.remote = l.iter().map(|(k, v)| (k.clone(), v.clone())).collect();
  }
  let mut loader = WorldLoader::new(&c.world);
  loader.max_redirects = c.max_redirects;
  let roots_u: Vec<ModuleSpecifier> = roots.iter().map(|r| ModuleSpecifier::parse(r).unwrap()).collect();
  let imports: Vec<ReferrerImports> = imports
    .iter()
    .map(|(r, i)| ReferrerImports { referrer: ModuleSpecifier::parse(r).unwrap(), imports: i.clone() })
    .collect();
  let exec = InlineExecutor;
  let npm = c.world.npm.as_ref().map(|a| crate::world::WorldNpm { answers: a, log: &loader.log });
  let options = BuildOptions {
    is_dynamic: c.bcfg.is_dynamic,
    skip_dynamic_deps: c.bcfg.skip_dynamic_deps,
    unstable_bytes_imports: c.unstable.0,
    unstable_text_imports: c.unstable.1,
    unstable_css_imports: c.unstable.2,
    passthrough_jsr_specifiers: c.world.passthrough_jsr,
    resolver: c.world.resolver.as_ref().map(|r| r as &dyn deno_graph::source::Resolver),
    npm_resolver: npm.as_ref().map(|r| r as &dyn deno_graph::source::NpmResolver),
    executor: &exec,
    locker: if c.lock.is_some() { Some(&mut locker) } else { None },
    ..Default::default()
  };
  futures::executor::block_on(graph.build(roots_u, imports, &loader, options));
  let log = loader.log.borrow().clone();
  (log, locker.sets.clone())
}

pub fn opts_sx(c: &BuiltCase) -> Sx {
  Sx::L(vec![
    Sx::A(c.bcfg.kind as u64),
    Sx::b(c.bcfg.is_dynamic),
    Sx::b(c.bcfg.skip_dynamic_deps),
    Sx::b(c.unstable.0),
    Sx::b(c.unstable.1),
    Sx::b(c.unstable.2),
  ])
}

/// Parses every module of the world with the real parser and collects all strings to intern.
pub fn parse_world(c: &BuiltCase) -> (HashMap<String, ParsedMod>, Vec<String>) {
  let mut parsed = HashMap::new();
  let mut strings = BTreeSet::new();
  for (spec, e) in &c.world.entries {
    strings.insert(spec.clone());
    if let Some(f) = c.world.final_specifiers.get(spec) {
      strings.insert(f.clone());
    }
    if let Entry::Redirect(to) = e {
      strings.insert(to.clone());
    }
    if let Some(pm) = parse_world_module(&c.world, spec, c.bcfg.kind) {
      if let Ok(m) = &pm.result {
        collect_module_strings(m, &mut strings);
      }
      parsed.insert(spec.clone(), pm);
    }
  }
  for r in &c.roots {
    strings.insert(r.clone());
  }
  (parsed, strings.into_iter().collect())
}

pub fn gen_case(seed: u64, k: u64, tier: Tier) -> Case {
  let mut rng = Rng::for_case(seed, k);
  let c = gen_build_case(&mut rng, tier);
  let mut graph = ModuleGraph::new(graph_kind(c.bcfg.kind));
  let log = real_build(&c, &mut graph, &c.roots, &c.bcfg.imports);
  let (parsed, strings) = parse_world(&c);
  let mut it = build_intern_multi(&[&graph], &strings);
  let w = abs_world(&c.world, &parsed, c.max_redirects, &mut it);
  let imps = abs_imports(&graph, &mut it);
  let obs = abs_bgraph(&graph, &log, &mut it);
  let n_slots = graph.specifiers_count() - graph.redirects.len() - graph.imports.len();
  let n_err = graph.module_errors().count();
  let has_dyn = graph.modules().any(|m| m.dependencies().values().any(|d| d.is_dynamic));
  let has_asset = log.iter().any(|l| l.asset);
  Case {
    input: Sx::L(vec![w, opts_sx(&c), Sx::atoms(c.roots.iter().map(|r| it.spec(r))), imps]),
    obs: Sx::L(vec![obs]),
    meta: serde_json::json!({"roots": c.roots, "build": format!("{:?}", c.bcfg), "unstable_bytes_text_css": format!("{:?}", c.unstable),
      "max_redirects": c.max_redirects, "world": describe_world(&c.world), "graph": serde_json::to_value(&graph).unwrap()}),
    nontrivial: n_slots >= 3 && (n_err > 0 || !graph.redirects.is_empty() || has_dyn),
    dist: vec![
      (format!("entries_{:02}", n_slots.min(15)), 1),
      (format!("errors_{}", n_err.min(6)), 1),
      (format!("redirects_{}", graph.redirects.len().min(6)), 1),
      (format!("graph_kind_{}", c.bcfg.kind), 1),
      (if has_dyn { "with_dynamic".into() } else { "no_dynamic".into() }, 1),
      (if has_asset { "with_asset_load".into() } else { "no_asset_load".into() }, 1),
      ("loader_calls".to_string(), log.len() as u64),
      (format!("npm_resolver_{}", c.world.npm.is_some()), 1),
      (format!("resolver_{}", c.world.resolver.is_some()), 1),
      (format!("wasm_modules_{}", graph.modules().filter(|m| matches!(m, Module::Wasm(_))).count().min(2)), 1),
      (format!("wasm_parse_errors_{}", graph.module_errors().filter(|e| matches!(e.as_kind(), ModuleErrorKind::WasmParse { .. })).count().min(2)), 1),
      (format!("npm_specifier_entries_{}", graph.specifiers().filter(|(s, _)| s.scheme() == "npm").count().min(3)), 1),
      (format!("jsr_passthrough_{}_entries_{}", c.world.passthrough_jsr, graph.specifiers().filter(|(s, _)| s.scheme() == "jsr").count().min(3)), 1),
    ],
    direct_violations: vec![],
  }
}

pub static SPM_WORLDS: std::sync::atomic::AtomicBool = std::sync::atomic::AtomicBool::new(false);

pub fn run(cfg: &RunCfg) {
  SPM_WORLDS.store(true, std::sync::atomic::Ordering::Relaxed);
  let n = if cfg.tier == Tier::Quick { 3000 } else { 60000 };
  // registry (stage B2) worlds
  let nj = if cfg.tier == Tier::Quick { 1500 } else { 30000 };
  // second layer: recorded dependencies as a function of the analysis (descriptor lists through the real parse_module)
  let nd = if cfg.tier == Tier::Quick { 4000 } else { 80000 };
  let tier = cfg.tier;
  run_cases(cfg, n + nj + nd, |seed, k| {
    if k < n {
      // the model also judges "nothing unreachable is present" on the graph (alias-free worlds)
      let mut c = gen_case(seed, k, tier);
      if let Sx::L(v) = &mut c.obs {
        v.push(Sx::judge(true));
      }
      c
    } else if k < n + nj {
      crate::props::jsr::gen_case(seed, k - n, crate::props::jsr::Flavour::Closure)
    } else {
      crate::props::decl::gen_case(seed, k - n - nj)
    }
  });
}
