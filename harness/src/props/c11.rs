//! C11 - fast check preserves the public API and drops everything else.
//!
//! Same packages as C10 (spec corpus, hand-written seeds, generated packages).
//! For every module fast check emitted, the ORIGINAL and the EMITTED text are
//! summarised with one interner (equal id <-> equal canonical text); the
//! resolved export name sets come from the real symbol API
//! (`ModuleInfoRef::exports`) on the original graph and on a second graph in
//! which the emitted texts are the module sources; generated packages add the
//! generator's intent (declared names outside the public API).  The extracted,
//! proved decision procedure judges the four clauses of the statement.
use crate::common::*;
use crate::fcx::*;
use crate::props::c10::{case_source, plan, CaseSrc};
use crate::sexp::Sx;

/// number of names a summarised module declares at top level (twin of RunC11.module_names)
fn declared_names(module: &Sx) -> u64 {
  let mut n = 0;
  if let Sx::L(m) = module {
    if let Some(Sx::L(items)) = m.get(1) {
      for it in items {
        if let Sx::L(f) = it {
          match f.first() {
            Some(Sx::A(3)) | Some(Sx::A(4)) | Some(Sx::A(6)) | Some(Sx::A(7)) | Some(Sx::A(8)) | Some(Sx::A(9)) => n += 1,
            Some(Sx::A(5)) => {
              if let Some(Sx::L(ds)) = f.get(4) {
                n += ds.len() as u64;
              }
            }
            _ => {}
          }
        }
      }
    }
  }
  n
}

fn gen_case(seed: u64, k: u64, corpus: &[SpecCase]) -> Case {
  let src = case_source(seed, k, corpus);
  let (world, mut meta, mut dist, intent) = match &src {
    CaseSrc::Corpus(name, w) => (w.clone(), serde_json::json!({"corpus": name}), vec![("corpus".to_string(), 1u64)], None),
    CaseSrc::Seed(name, w) => (w.clone(), serde_json::json!({"seed_package": name}), vec![("seed-package".to_string(), 1u64)], None),
    CaseSrc::Gen(pkg, w, workspace) => {
      let mut d: Vec<(String, u64)> = pkg.features.iter().map(|(f, n)| (format!("gen:{}", f), *n)).collect();
      d.push((if *workspace { "mode:workspace".into() } else { "mode:registry".into() }, 1));
      (
        w.clone(),
        serde_json::json!({
          "generated": true,
          "workspace": workspace,
          "modules": pkg.modules.iter().map(|m| (m.path.clone(), pkggen::p_module(m))).collect::<Vec<_>>(),
          "exports": pkg.exports,
          "intent_must_drop": pkg.intent.must_drop,
          "intent_must_drop_nested": pkg.intent.must_drop_paths,
        }),
        d,
        Some(pkg.intent.clone()),
      )
    }
  };
  let run = run_world(&world);
  let mut direct = vec![];
  let mut inputs = vec![];
  let mut obs = vec![];
  let mut emitted_meta = vec![];
  let any_emitted = run.modules.iter().any(|m| matches!(m.out, FcOut::Emitted { .. }));
  let em_exports = if any_emitted { emitted_exports(&world, &run) } else { None };
  if any_emitted && em_exports.is_none() {
    dist.push(("export-sets-unknown (second graph does not build)".into(), 1));
  }
  let mut n_emitted = 0u64;
  let mut pulled = 0u64;
  let mut dropped = 0u64;
  for m in &run.modules {
    let FcOut::Emitted { text, .. } = &m.out else { continue };
    n_emitted += 1;
    let mut int = sum::Interner::new();
    let orig = sum::summarise(&mut int, &m.specifier, m.media_type, &m.source);
    let emit = sum::summarise(&mut int, &m.specifier, m.media_type, text);
    let (Ok((osx, _)), Ok((esx, _))) = (orig, emit) else {
      direct.push(format!("module {} or its fast-check output does not parse", m.specifier));
      continue;
    };
    let (known, oe, ee) = match (&m.orig_exports, em_exports.as_ref().and_then(|e| e.get(&m.specifier))) {
      (Some(o), Some(e)) => (true, o.iter().map(|n| Sx::A(int.id(n))).collect::<Vec<_>>(), e.iter().map(|n| Sx::A(int.id(n))).collect::<Vec<_>>()),
      _ => (false, vec![], vec![]),
    };
    dist.push((if m.is_entrypoint { "pair:entrypoint".into() } else { "pair:non-entrypoint".into() }, 1));
    dist.push(("export-names-original".into(), oe.len() as u64));
    dist.push(("export-names-emitted".into(), ee.len() as u64));
    let mut must_drop = vec![];
    if let Some(it) = &intent {
      for (path, names) in &it.must_drop {
        if m.specifier.ends_with(&format!("/{}", path)) {
          for n in names {
            must_drop.push(Sx::A(int.id(n)));
          }
          dropped += names.len() as u64;
        }
      }
      for (path, names) in &it.public {
        if m.specifier.ends_with(&format!("/{}", path)) {
          pulled += names.len() as u64;
        }
      }
    }
    let mut must_drop_paths = vec![];
    if let Some(it) = &intent {
      for (path, paths) in &it.must_drop_paths {
        if m.specifier.ends_with(&format!("/{}", path)) {
          for pth in paths {
            must_drop_paths.push(Sx::atoms(pth.iter().map(|n| int.id(n))));
          }
          dropped += paths.len() as u64;
          dist.push(("intent-must-drop-nested-paths".into(), paths.len() as u64));
        }
      }
    }
    let n_names = declared_names(&esx);
    dist.push(("emitted-declared-names".into(), n_names));
    dist.push(("original-declared-names".into(), declared_names(&osx)));
    inputs.push(Sx::L(vec![Sx::b(m.is_entrypoint), osx, esx, Sx::L(oe), Sx::L(ee), Sx::b(known), Sx::L(must_drop), Sx::L(must_drop_paths)]));
    obs.push(Sx::L(vec![Sx::A(n_names), Sx::judge(true), Sx::judge(true), Sx::judge(true), Sx::judge(true)]));
    emitted_meta.push(serde_json::json!({"specifier": m.specifier, "entrypoint": m.is_entrypoint, "original": m.source, "emitted": text,
      "original_exports": m.orig_exports, "emitted_exports": em_exports.as_ref().and_then(|e| e.get(&m.specifier))}));
  }
  dist.push(("intent-must-drop-names".into(), dropped));
  dist.push(("intent-public-names".into(), pulled));
  dist.push(("emitted-modules".into(), n_emitted));
  if !run.graph_errors.is_empty() {
    dist.push(("graph-errors (fast check not run)".into(), 1));
  }
  meta["pairs"] = serde_json::Value::Array(emitted_meta);
  Case {
    input: Sx::L(vec![Sx::A(0), Sx::L(inputs)]),
    obs: Sx::L(obs),
    meta,
    // a package where something private is dropped and something is retained
    nontrivial: n_emitted > 0 && (intent.is_none() || (dropped > 0 && pulled > 0)),
    dist,
    direct_violations: direct,
  }
}

pub fn run(cfg: &RunCfg) {
  let corpus = corpus();
  let p = plan(cfg.tier);
  let n = corpus.len() as u64 + seed_packages().len() as u64 + p.n_gen;
  let _ = p.n_model;
  let lean = cfg.tier == Tier::Thorough && cfg.only_case.is_none();
  run_cases(cfg, n, |seed, k| {
    let mut c = gen_case(seed, k, &corpus);
    if lean {
      lean_meta(&mut c.meta);
    }
    c
  });
}
