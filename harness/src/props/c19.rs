//! C19: incremental builds and reloads converge to the from-scratch graph.
use crate::abs::*;
use crate::absworld::*;
use crate::build::*;
use crate::common::*;
use crate::props::c01::*;
use crate::props::c17::describe_world;
use crate::rng::Rng;
use crate::sexp::Sx;
use crate::world::*;
use deno_graph::*;
use std::collections::BTreeSet;

/// Blank the referrer of error entries: which importer is recorded as the
/// referrer legitimately depends on which request came first.
fn strip_refs(slots: &Sx) -> Sx {
  fn fix(p: &Sx) -> Sx {
    if let Sx::L(v) = p {
      if v.len() >= 2 && v[0] == Sx::A(2) {
        if let Sx::L(e) = &v[1] {
          let mut e = e.clone();
          let tag = match e.first() { Some(Sx::A(t)) => *t, _ => 99 };
          match tag {
            0 | 1 | 7 | 8 => { if e.len() > 2 { e[2] = Sx::L(vec![]); } }
            4 => { if e.len() > 3 { e[3] = Sx::L(vec![]); } }
            5 | 6 | 9 => { if e.len() > 2 { e[2] = Sx::A(0); } }
            _ => {}
          }
          let mut v2 = v.clone();
          v2[1] = Sx::L(e);
          return Sx::L(v2);
        }
      }
    }
    p.clone()
  }
  match slots {
    Sx::L(items) => Sx::L(items.iter().map(|it| match it {
      Sx::L(kv) if kv.len() == 2 => Sx::L(vec![kv[0].clone(), fix(&kv[1])]),
      x => x.clone(),
    }).collect()),
    x => x.clone(),
  }
}

fn part(v: &Sx, i: usize) -> Sx {
  match v {
    Sx::L(l) => l[i].clone(),
    x => x.clone(),
  }
}

fn real_reload(c: &BuiltCase, graph: &mut ModuleGraph, specs: &[String]) -> Vec<LoadCall> {
  let mut loader = WorldLoader::new(&c.world);
  loader.max_redirects = c.max_redirects;
  let specs_u: Vec<ModuleSpecifier> = specs.iter().map(|r| ModuleSpecifier::parse(r).unwrap()).collect();
  let exec = InlineExecutor;
  let npm = c.world.npm.as_ref().map(|a| crate::world::WorldNpm { answers: a, log: &loader.log });
  let options = BuildOptions {
    is_dynamic: c.bcfg.is_dynamic,
    skip_dynamic_deps: c.bcfg.skip_dynamic_deps,
    unstable_bytes_imports: c.unstable.0,
    unstable_text_imports: c.unstable.1,
    unstable_css_imports: c.unstable.2,
    passthrough_jsr_specifiers: c.world.passthrough_jsr,
    resolver: c.world.resolver.as_ref().map(|r| r as &dyn deno_graph::source::Resolver),
    npm_resolver: npm.as_ref().map(|r| r as &dyn deno_graph::source::NpmResolver),
    executor: &exec,
    ..Default::default()
  };
  futures::executor::block_on(graph.reload(specs_u, &loader, options));
  loader.log.borrow().clone()
}

/// Edits a world: returns the edited world and the specifiers whose sources changed.
fn edit_world(rng: &mut Rng, world: &World, in_graph: &BTreeSet<String>) -> (World, Vec<String>) {
  let mut w = world.clone();
  // reload requests a specifier without attribute: under the proviso only plain targets are edited
  let mods: Vec<String> = w.entries.iter().filter(|(k, e)| in_graph.contains(*k) && attr_class_target(k, true) == 0 && matches!(e, Entry::Module { raw: None, .. })).map(|(k, _)| k.clone()).collect();
  let all: Vec<String> = w.entries.keys().cloned().collect();
  let mut edited = vec![];
  if mods.is_empty() {
    return (w, edited);
  }
  for _ in 0..rng.range(1, 2) {
    let m = rng.pick(&mods).clone();
    match rng.below(4) {
      0 => {
        // add a dependency
        if let Some(Entry::Module { src, .. }) = w.entries.get_mut(&m) {
          let mut to = "https://h.test/nowhere.ts".to_string();
          for _ in 0..20 {
            let t = rng.pick(&all).clone();
            if attr_class_target(&t, true) == 0 {
              to = t;
              break;
            }
          }
          src.imports.push(Imp { form: if rng.chance(70) { Form::Static } else { Form::Dynamic }, text: to });
        }
      }
      1 => {
        // remove a dependency
        if let Some(Entry::Module { src, .. }) = w.entries.get_mut(&m) {
          if !src.imports.is_empty() {
            let i = rng.below(src.imports.len());
            src.imports.remove(i);
          }
        }
      }
      2 => {
        // the module disappears
        w.entries.insert(m.clone(), Entry::Missing);
      }
      _ => {
        // the module becomes unparsable
        if let Some(Entry::Module { src, .. }) = w.entries.get_mut(&m) {
          src.broken = true;
        }
      }
    }
    if !edited.contains(&m) {
      edited.push(m);
    }
  }
  (w, edited)
}

fn world_op_sx(tag: u64, c: &BuiltCase, it: &mut Intern, tail: Vec<Sx>) -> Sx {
  let (parsed, _) = parse_world(c);
  let w = abs_world(&c.world, &parsed, c.max_redirects, it);
  let mut v = vec![Sx::A(tag), w];
  v.extend(tail);
  Sx::L(v)
}

pub fn gen_case(seed: u64, k: u64, tier: Tier) -> Case {
  let mut rng = Rng::for_case(seed, k);
  let mut c = gen_build_case(&mut rng, tier);
  // histories edit and reload worlds per specifier; modules answered under another final specifier
  // (where "the entry of X" depends on who was asked) are left to the C01/C03/C04 streams
  c.world.final_specifiers.clear();
  // default dynamic options for histories; roots: up to 4 plain module specifiers
  c.bcfg.is_dynamic = false;
  let plain: Vec<String> = c.world.entries.iter().filter(|(s, e)| attr_class_target(s, true) == 0 && !matches!(e, Entry::Redirect(_))).map(|(s, _)| s.clone()).collect();
  let mut roots: Vec<String> = c.roots.clone();
  for _ in 0..rng.range(1, 3) {
    if !plain.is_empty() {
      let r = rng.pick(&plain).clone();
      if !roots.contains(&r) {
        roots.push(r);
      }
    }
  }
  // a module that other modules import only as a text / bytes asset may also be asked for as a root
  // (an asset entry is then replaced by the module, whichever came first)
  if rng.chance(35) {
    let assets: Vec<String> = c
      .world
      .entries
      .iter()
      .filter(|(s, e)| {
        // only with the matching unstable option on: with it off every such import is an error entry
        // filed at the TARGET, which a root request for the same specifier then fights over - a mix of
        // attribute-less and attributed requests that the same-attribute proviso excludes
        let cls = attr_class_target(s, true);
        ((cls == 2 && c.unstable.1) || (cls == 3 && c.unstable.0)) && matches!(e, Entry::Module { .. })
      })
      .map(|(s, _)| s.clone())
      .collect();
    if !assets.is_empty() {
      let r = rng.pick(&assets).clone();
      if !roots.contains(&r) {
        roots.push(r);
      }
    }
  }
  // alias chains: a2 -> a1 -> module, imported by a root, so that reload can go through an alias
  if rng.chance(60) && !plain.is_empty() {
    let target = rng.pick(&plain).clone();
    if target.starts_with("http") {
      let a1 = format!("https://h.test/alias1_{}.ts", rng.below(3));
      let a2 = format!("https://h.test/alias2_{}.ts", rng.below(3));
      c.world.entries.insert(a1.clone(), Entry::Redirect(target.clone()));
      c.world.entries.insert(a2.clone(), Entry::Redirect(a1.clone()));
      let importer = roots[0].clone();
      if let Some(Entry::Module { src, .. }) = c.world.entries.get_mut(&importer) {
        src.imports.push(Imp { form: Form::Static, text: a2.clone() });
      }
    }
  }
  c.roots = roots.clone();
  let imports = c.bcfg.imports.clone();
  let mode_pick = rng.below(10);
  // the specifiers a reload actually re-loads (the ends of the aliases' redirect chains)
  let mut reload_targets: Vec<String> = vec![];
  let mut strings: BTreeSet<String> = BTreeSet::new();
  let mut graphs: Vec<ModuleGraph> = vec![];
  // the histories are executed first on the real code; the model input is assembled afterwards
  let kind = graph_kind(c.bcfg.kind);
  let (final_graph, alt_graph, before_graph, last_log, ops_desc, mode, edited_world): (ModuleGraph, ModuleGraph, Option<ModuleGraph>, Vec<LoadCall>, Vec<(u64, Vec<String>)>, u64, Option<World>);
  if mode_pick < 5 {
    // A. partition of the roots into successive builds vs all at once
    let mut parts: Vec<Vec<String>> = vec![];
    let n_parts = rng.range(2, 3).min(roots.len().max(1));
    for _ in 0..n_parts {
      parts.push(vec![]);
    }
    for r in &roots {
      let i = rng.below(n_parts);
      parts[i].push(r.clone());
    }
    parts.retain(|p| !p.is_empty());
    let mut g = ModuleGraph::new(kind);
    let mut log = vec![];
    let mut ops = vec![];
    for (i, p) in parts.iter().enumerate() {
      log = real_build(&c, &mut g, p, if i == 0 { &imports } else { &[] });
      ops.push((0u64, p.clone()));
    }
    let mut alt = ModuleGraph::new(kind);
    let flat: Vec<String> = parts.iter().flatten().cloned().collect();
    real_build(&c, &mut alt, &flat, &imports);
    final_graph = g;
    alt_graph = alt;
    before_graph = None;
    last_log = log;
    ops_desc = ops;
    mode = 0;
    edited_world = None;
  } else if mode_pick < 6 {
    // B. building again with the roots it already has changes nothing
    let mut g = ModuleGraph::new(kind);
    real_build(&c, &mut g, &roots, &imports);
    let alt = g.clone();
    let log = real_build(&c, &mut g, &roots, &imports);
    final_graph = g;
    alt_graph = alt;
    before_graph = None;
    last_log = log;
    ops_desc = vec![(0, roots.clone()), (0, roots.clone())];
    mode = 0;
    edited_world = None;
  } else {
    // C. edit sources, reload the edited specifiers, compare with a from-scratch build of the new sources
    let mut g = ModuleGraph::new(kind);
    real_build(&c, &mut g, &roots, &imports);
    let before = g.clone();
    // only specifiers that are entries of the graph are edited and reloaded
    let in_graph: BTreeSet<String> = entries(&g).iter().map(|(s, _)| s.to_string()).collect();
    let (w2, edited) = edit_world(&mut rng, &c.world, &in_graph);
    let c2 = BuiltCase { lock: None, world: w2.clone(), roots: roots.clone(), bcfg: c.bcfg.clone(), unstable: c.unstable, max_redirects: c.max_redirects };
    // reload through an alias half of the time: a redirect source (preferably the head of a chain of
    // two or more hops) whose chain ends at the edited specifier
    let mut reload_specs: Vec<String> = vec![];
    for e in &edited {
      let eu = ModuleSpecifier::parse(e).unwrap();
      let mut aliases: Vec<(usize, String)> = vec![];
      for (a, _) in &g.redirects {
        if g.resolve(a) == &eu {
          // hops from a
          let mut hops = 0;
          let mut cur = a.clone();
          while let Some(n) = g.redirects.get(&cur) {
            hops += 1;
            cur = n.clone();
            if hops > 12 {
              break;
            }
          }
          aliases.push((hops, a.to_string()));
        }
      }
      aliases.sort();
      if !aliases.is_empty() && rng.chance(60) {
        reload_specs.push(aliases.last().unwrap().1.clone());
      } else {
        reload_specs.push(e.clone());
      }
    }
    let edited_orig = edited.clone();
    let edited = reload_specs;
    reload_targets = edited_orig.clone();
    let log = real_reload(&c2, &mut g, &edited);
    let mut alt = ModuleGraph::new(kind);
    real_build(&c2, &mut alt, &roots, &imports);
    final_graph = g;
    alt_graph = alt;
    before_graph = Some(before);
    last_log = log;
    ops_desc = vec![(0, roots.clone()), (1, edited)];
    mode = 1;
    edited_world = Some(w2);
  }
  graphs.push(final_graph.clone());
  // interning over everything
  let c_second = edited_world.as_ref().map(|w| BuiltCase { lock: None, world: w.clone(), roots: roots.clone(), bcfg: c.bcfg.clone(), unstable: c.unstable, max_redirects: c.max_redirects });
  for cc in [Some(&c), c_second.as_ref()].into_iter().flatten() {
    let (_, s) = parse_world(cc);
    strings.extend(s);
  }
  let mut gs: Vec<&ModuleGraph> = vec![&final_graph, &alt_graph];
  if let Some(b) = &before_graph {
    gs.push(b);
  }
  let strings_v: Vec<String> = strings.into_iter().collect();
  let mut it = build_intern_multi(&gs, &strings_v);
  // ops in wire format
  let mut ops_sx = vec![];
  for (i, (tag, specs)) in ops_desc.iter().enumerate() {
    let world_c = if *tag == 1 { c_second.as_ref().unwrap() } else { &c };
    let specs_sx = Sx::atoms(specs.iter().map(|s| it.spec(s)));
    if *tag == 0 {
      let imps = if i == 0 { abs_imports(&final_graph, &mut it) } else { Sx::L(vec![]) };
      ops_sx.push(world_op_sx(0, world_c, &mut it, vec![specs_sx, imps]));
    } else {
      ops_sx.push(world_op_sx(1, world_c, &mut it, vec![specs_sx]));
    }
  }
  let fin = abs_bgraph(&final_graph, &last_log, &mut it);
  let alt = abs_bgraph(&alt_graph, &[], &mut it);
  let before = match &before_graph {
    Some(b) => part(&abs_bgraph(b, &[], &mut it), 2),
    None => Sx::L(vec![]),
  };
  let keys: Vec<u64> = if mode == 1 {
    entries(&alt_graph).iter().map(|(s, _)| it.spec(s.as_str())).collect()
  } else {
    vec![]
  };
  let mut reloaded: Vec<u64> = ops_desc.iter().filter(|(t, _)| *t == 1).flat_map(|(_, s)| s.iter().map(|x| it.spec(x)).collect::<Vec<_>>()).collect();
  reloaded.extend(reload_targets.iter().map(|x| it.spec(x)));
  let n = final_graph.specifiers_count();
  Case {
    input: Sx::L(vec![opts_sx(&c), Sx::L(ops_sx), strip_refs(&part(&fin, 2)), part(&fin, 3), strip_refs(&part(&alt, 2)), part(&alt, 3), Sx::A(mode), Sx::L(vec![Sx::atoms(keys), Sx::atoms(reloaded)]), strip_refs(&before)]),
    obs: Sx::L(vec![Sx::L(vec![fin]), Sx::L(vec![Sx::judge(true)])]),
    meta: serde_json::json!({"history": ops_desc.iter().map(|(t, s)| serde_json::json!({"op": if *t == 0 { "build" } else { "reload" }, "specifiers": s})).collect::<Vec<_>>(),
      "build": format!("{:?}", c.bcfg), "world": describe_world(&c.world),
      "edited_world": edited_world.as_ref().map(describe_world),
      "final": serde_json::to_value(&final_graph).unwrap(), "alternative": serde_json::to_value(&alt_graph).unwrap()}),
    nontrivial: n >= 3,
    dist: vec![
      (match mode_pick { 0..=4 => "partitioned_build".to_string(), 5 => "rebuild_same_roots".to_string(), _ => "edit_and_reload".to_string() }, 1),
      (format!("entries_{:02}", n.min(15)), 1),
    ],
    direct_violations: vec![],
  }
}

pub fn run(cfg: &RunCfg) {
  let n = if cfg.tier == Tier::Quick { 2500 } else { 50000 };
  let tier = cfg.tier;
  run_cases(cfg, n, |seed, k| gen_case(seed, k, tier));
}
