pub mod c15;
pub mod c02;
pub mod c14;
pub mod c07;
