pub mod c15;
pub mod c02;
