pub mod c15;
pub mod c02;
pub mod c14;
pub mod c17;
pub mod c18;
pub mod c04;
pub mod c01;
pub mod c06;
