pub mod c15;
