//! C01, second layer (coq/Model/Decl.v): a module's recorded dependencies as a function of the
//! dependency descriptors of its analysis. Random descriptor lists (repeated specifier texts in
//! every order of static / dynamic / type-only / augmentation imports, attributes, @deno-types,
//! side-effect flags) are handed to the REAL parse_module through a provided analyzer; the recorded
//! dependency map must equal the model's. What each text resolves to is taken from separate real
//! runs on a module that imports that text alone.
use crate::common::*;
use crate::rng::Rng;
use crate::sexp::Sx;
use deno_graph::analysis::*;
use deno_graph::source::NullFileSystem;
use deno_graph::*;
use std::cell::RefCell;
use std::collections::HashMap;
use std::sync::Arc;

pub const DECLTAG: u64 = 31339;

struct Provided(RefCell<Option<ModuleInfo>>);
#[async_trait::async_trait(?Send)]
impl ModuleAnalyzer for Provided {
  async fn analyze(&self, _s: &ModuleSpecifier, _src: Arc<str>, _m: MediaType) -> Result<ModuleInfo, deno_error::JsErrorBox> {
    Ok(self.0.borrow_mut().take().unwrap())
  }
}

/// A Resolver for whole-declaration cases: refuses or maps some texts, has default JSX import
/// sources and a jsx module name of its own, and answers resolve_types for the module.
#[derive(Debug, Default, Clone)]
struct DeclResolver {
  map: HashMap<String, Option<String>>,
  jsx: Option<String>,
  jsx_types: Option<String>,
  jsx_module: &'static str,
  /// None = Ok(None); Some(Ok(url)) = Ok(Some(url)); Some(Err(())) = Err
  types: Option<Result<String, ()>>,
}

impl deno_graph::source::Resolver for DeclResolver {
  fn default_jsx_import_source(&self, _referrer: &ModuleSpecifier) -> Option<String> {
    self.jsx.clone()
  }
  fn default_jsx_import_source_types(&self, _referrer: &ModuleSpecifier) -> Option<String> {
    self.jsx_types.clone()
  }
  fn jsx_import_source_module(&self, _referrer: &ModuleSpecifier) -> &str {
    self.jsx_module
  }
  fn resolve(&self, specifier_text: &str, referrer_range: &Range, _kind: deno_graph::source::ResolutionKind) -> Result<ModuleSpecifier, deno_graph::source::ResolveError> {
    match self.map.get(specifier_text) {
      Some(Some(url)) => Ok(ModuleSpecifier::parse(url).unwrap()),
      Some(None) => Err(deno_graph::source::ResolveError::Other(deno_error::JsErrorBox::generic("refused by the resolver"))),
      None => Ok(deno_graph::resolve_import(specifier_text, &referrer_range.specifier)?),
    }
  }
  fn resolve_types(&self, _specifier: &ModuleSpecifier) -> Result<Option<(ModuleSpecifier, Option<Range>)>, deno_graph::source::ResolveError> {
    match &self.types {
      None => Ok(None),
      Some(Ok(url)) => Ok(Some((ModuleSpecifier::parse(url).unwrap(), None))),
      Some(Err(())) => Err(deno_graph::source::ResolveError::Other(deno_error::JsErrorBox::generic("no types for this module"))),
    }
  }
}

fn parse_with(referrer: &str, kind: GraphKind, info: ModuleInfo, res: Option<&DeclResolver>) -> Option<JsModule> {
  parse_with_headers(referrer, kind, info, None, res)
}

fn parse_with_headers(referrer: &str, kind: GraphKind, info: ModuleInfo, headers: Option<HashMap<String, String>>, res: Option<&DeclResolver>) -> Option<JsModule> {
  let provided = Provided(RefCell::new(Some(info)));
  let content: &[u8] = b"";
  let r = futures::executor::block_on(parse_module(ParseModuleOptions {
    graph_kind: kind,
    specifier: ModuleSpecifier::parse(referrer).unwrap(),
    maybe_headers: headers,
    mtime: None,
    content: Arc::from(content),
    file_system: &NullFileSystem,
    jsr_url_provider: Default::default(),
    maybe_resolver: res.map(|r| r as &dyn deno_graph::source::Resolver),
    module_analyzer: &provided,
  }));
  match r {
    Ok(Module::Js(m)) => Some(m),
    _ => None,
  }
}

fn range_at(line: usize, len: usize) -> PositionRange {
  PositionRange { start: Position { line, character: 7 }, end: Position { line, character: 7 + len } }
}

fn info_of(deps: Vec<DependencyDescriptor>) -> ModuleInfo {
  ModuleInfo {
    is_script: false,
    dependencies: deps,
    ts_references: vec![],
    self_types_specifier: None,
    jsx_import_source: None,
    jsx_import_source_types: None,
    jsdoc_imports: vec![],
    source_map_url: None,
  }
}

struct Ids {
  m: HashMap<String, u64>,
}
impl Ids {
  fn id(&mut self, s: &str) -> u64 {
    let n = self.m.len() as u64 + 1;
    *self.m.entry(s.to_string()).or_insert(n)
  }
}

fn res_sx(r: &Resolution, ids: &mut Ids) -> Sx {
  match r {
    Resolution::None => Sx::atoms([0]),
    Resolution::Ok(ok) => Sx::atoms([1, ids.id(&format!("spec:{}", ok.specifier)), ids.id(&range_key(&ok.range.range))]),
    Resolution::Err(e) => Sx::atoms([2, ids.id(&format!("err:{}", e)), ids.id(&range_key(&e.range().range))]),
  }
}
fn range_key(r: &PositionRange) -> String {
  format!("range:{}:{}-{}:{}", r.start.line, r.start.character, r.end.line, r.end.character)
}
fn rout_sx(r: &Resolution, ids: &mut Ids) -> Sx {
  match r {
    Resolution::Ok(ok) => Sx::atoms([0, ids.id(&format!("spec:{}", ok.specifier))]),
    Resolution::Err(e) => Sx::atoms([1, ids.id(&format!("err:{}", e))]),
    Resolution::None => Sx::atoms([1, 0]),
  }
}

const TEXTS: &[&str] = &[
  "./a.ts", "./b.js", "./c.d.ts", "../up.ts", "https://x.test/y.ts", "bare", "./data.json", "http://insecure.test/z.ts",
  "file:///local.ts", "./a.ts?x", "npm:chalk@5", "jsr:@s/a@1", "node:fs",
];
const REFERRERS: &[&str] = &["file:///p/m.ts", "https://h.test/sub/m.ts", "https://h.test/m.d.ts", "file:///p/m.js", "file:///p/m.tsx", "http://h.test/m.mjs", "file:///p/m.d.mts"];

pub fn gen_case(seed: u64, k: u64) -> Case {
  // every other case is a whole declaration: references, JSX source, JSDoc imports and the types header too
  gen_case_inner(seed, k, k % 2 == 1)
}

fn gen_case_inner(seed: u64, k: u64, full: bool) -> Case {
  let mut rng = Rng::for_case(seed ^ 0xdec1, k);
  let referrer = *rng.pick(REFERRERS);
  let kind = *rng.pick(&[GraphKind::All, GraphKind::All, GraphKind::CodeOnly, GraphKind::TypesOnly]);
  // a small pool of texts so that repeats are frequent
  let npool = rng.range(1, 3);
  let pool: Vec<&str> = (0..npool).map(|_| *rng.pick(TEXTS)).collect();
  let n = rng.range(1, 7);
  let mut descs = vec![];
  let mut descr_sx = vec![];
  let mut ids = Ids { m: HashMap::new() };
  let mut shown = vec![];
  for i in 0..n {
    let text = rng.pick(&pool).to_string();
    let attr: Option<&str> = match rng.below(10) {
      0 => Some("json"),
      1 => Some("text"),
      _ => None,
    };
    let attrs = match attr {
      Some(a) => ImportAttributes::Known([("type".to_string(), ImportAttribute::Known(a.to_string()))].into_iter().collect()),
      None => ImportAttributes::None,
    };
    let types = if rng.chance(20) { Some(SpecifierWithRange { text: rng.pick(TEXTS).to_string(), range: range_at(100 + i, 5) }) } else { None };
    let range = range_at(i, text.len() + 2);
    let side = rng.chance(25);
    let (desc, kind_id, dynamic) = if rng.chance(35) {
      let dk = *rng.pick(&[DynamicDependencyKind::Import, DynamicDependencyKind::Import, DynamicDependencyKind::ImportDefer, DynamicDependencyKind::ImportSource, DynamicDependencyKind::Require]);
      let kid = match dk {
        DynamicDependencyKind::Import | DynamicDependencyKind::ImportDefer => 0,
        DynamicDependencyKind::ImportSource => 1,
        DynamicDependencyKind::Require => 2,
      };
      (
        DependencyDescriptor::Dynamic(DynamicDependencyDescriptor {
          kind: dk,
          types_specifier: types.clone(),
          argument: DynamicArgument::String(text.clone()),
          argument_range: range,
          import_attributes: attrs,
        }),
        kid,
        true,
      )
    } else {
      let sk = *rng.pick(&[
        StaticDependencyKind::Import,
        StaticDependencyKind::Import,
        StaticDependencyKind::Export,
        StaticDependencyKind::ImportType,
        StaticDependencyKind::ExportType,
        StaticDependencyKind::ImportEquals,
        StaticDependencyKind::ExportEquals,
        StaticDependencyKind::ImportDefer,
        StaticDependencyKind::ImportSource,
        StaticDependencyKind::MaybeTsModuleAugmentation,
      ]);
      let kid = match sk {
        StaticDependencyKind::ImportType | StaticDependencyKind::ExportType => 3,
        StaticDependencyKind::MaybeTsModuleAugmentation => 4,
        StaticDependencyKind::ImportSource => 1,
        _ => 0,
      };
      (
        DependencyDescriptor::Static(StaticDependencyDescriptor {
          kind: sk,
          types_specifier: types.clone(),
          specifier: text.clone(),
          specifier_range: range,
          import_attributes: attrs,
          is_side_effect: side && sk == StaticDependencyKind::Import,
        }),
        kid,
        false,
      )
    };
    let side_eff = matches!(&desc, DependencyDescriptor::Static(s) if s.is_side_effect);
    shown.push(serde_json::to_value(&desc).unwrap());
    descs.push(desc);
    let ty = Sx::opt(types.as_ref().map(|t| Sx::atoms([ids.id(&format!("text:{}", t.text)), ids.id(&range_key(&t.range))])));
    descr_sx.push(Sx::L(vec![
      Sx::A(ids.id(&format!("text:{}", text))),
      Sx::A(kind_id),
      Sx::b(dynamic),
      Sx::A(attr.map(|a| ids.id(&format!("attr:{}", a))).unwrap_or(0)),
      Sx::b(side_eff),
      Sx::A(ids.id(&range_key(&range))),
      ty,
    ]));
  }
  // a third of the whole declarations are parsed with a Resolver (its choices come from a stream of
  // their own, so that the cases without one stay what they were)
  let resolver: Option<DeclResolver> = if full {
    let mut r2 = Rng::for_case(seed ^ 0xdec2, k);
    if r2.chance(35) {
      let mut map = HashMap::new();
      for t in pool.iter().chain(TEXTS.iter().take(6)) {
        match r2.below(8) {
          0 => {
            map.insert(t.to_string(), None);
          }
          1 => {
            map.insert(t.to_string(), Some(format!("https://mapped.test/{}.ts", r2.below(3))));
          }
          _ => {}
        }
      }
      Some(DeclResolver {
        map,
        jsx: if r2.chance(55) { Some((*r2.pick(&["https://esm.test/preact", "bare", "./local-jsx"])).to_string()) } else { None },
        jsx_types: if r2.chance(40) { Some((*r2.pick(&["https://esm.test/preact-types", "./jsx-types"])).to_string()) } else { None },
        jsx_module: if r2.chance(50) { "jsx-runtime" } else { "jsx-dev-runtime" },
        types: match r2.below(4) {
          0 => Some(Err(())),
          1 | 2 => Some(Ok((*r2.pick(&["https://types.test/m.d.ts", "file:///p/m.d.ts"])).to_string())),
          _ => None,
        },
      })
    } else {
      None
    }
  } else {
    None
  };
  let jsx_module: &str = resolver.as_ref().map(|r| r.jsx_module).unwrap_or("jsx-runtime");
  // extras of a whole declaration
  let mut info_extras = info_of(vec![]);
  let mut header: Option<String> = None;
  let mut extra_texts: Vec<String> = vec![];
  let mut extras_sx = Sx::L(vec![Sx::opt(None), Sx::L(vec![]), Sx::opt(None), Sx::opt(None), Sx::L(vec![]), Sx::opt(None)]);
  if full {
    let mut pick_text = |rng: &mut Rng| -> String { if rng.chance(60) { rng.pick(&pool).to_string() } else { rng.pick(TEXTS).to_string() } };
    let mut swr = |rng: &mut Rng, line: usize, text: String| SpecifierWithRange { range: range_at(line, text.len()), text };
    let self_types = if rng.chance(30) { let t = pick_text(&mut rng); Some(swr(&mut rng, 200, t)) } else { None };
    let mut refs = vec![];
    let mut refs_sx = vec![];
    for j in 0..rng.below(3) {
      let t = pick_text(&mut rng);
      let s0 = swr(&mut rng, 210 + j, t.clone());
      let rid = ids.id(&range_key(&s0.range));
      let tid = ids.id(&format!("text:{}", t));
      if rng.chance(50) {
        refs.push(TypeScriptReference::Path(s0));
        refs_sx.push(Sx::atoms([0, tid, rid]));
      } else {
        refs.push(TypeScriptReference::Types { specifier: s0, resolution_mode: None });
        refs_sx.push(Sx::atoms([1, tid, rid]));
      }
      extra_texts.push(t);
    }
    let jsx = if rng.chance(40) { let t = pick_text(&mut rng); Some(swr(&mut rng, 220, t)) } else { None };
    let jsx_types = if rng.chance(30) { let t = pick_text(&mut rng); Some(swr(&mut rng, 221, t)) } else { None };
    let mut jsdoc = vec![];
    let mut jsdoc_sx = vec![];
    for j in 0..rng.below(3) {
      let t = pick_text(&mut rng);
      let s0 = swr(&mut rng, 230 + j, t.clone());
      jsdoc_sx.push(Sx::atoms([ids.id(&format!("text:{}", t)), ids.id(&range_key(&s0.range))]));
      jsdoc.push(JsDocImportInfo { specifier: s0, resolution_mode: None });
      extra_texts.push(t);
    }
    if rng.chance(30) {
      header = Some(pick_text(&mut rng));
    }
    let jsx_text = |s0: &SpecifierWithRange| format!("{}/{}", s0.text, jsx_module);
    let opt_swr = |ids: &mut Ids, s0: &Option<SpecifierWithRange>, jsxish: bool| -> Sx {
      Sx::opt(s0.as_ref().map(|s0| {
        let t = if jsxish { jsx_text(s0) } else { s0.text.clone() };
        Sx::atoms([ids.id(&format!("text:{}", t)), ids.id(&range_key(&s0.range))])
      }))
    };
    for s0 in [&self_types].into_iter().flatten() {
      extra_texts.push(s0.text.clone());
    }
    for s0 in [&jsx, &jsx_types].into_iter().flatten() {
      extra_texts.push(jsx_text(s0));
    }
    if let Some(h) = &header {
      extra_texts.push(h.clone());
    }
    extras_sx = Sx::L(vec![
      opt_swr(&mut ids, &self_types, false),
      Sx::L(refs_sx),
      opt_swr(&mut ids, &jsx, true),
      opt_swr(&mut ids, &jsx_types, true),
      Sx::L(jsdoc_sx),
      Sx::opt(header.as_ref().map(|h| Sx::A(ids.id(&format!("text:{}", h))))),
      // what the Resolver adds: default JSX source and types source (composed with the jsx module
      // name), and its resolve_types answer for the module
      Sx::opt(resolver.as_ref().and_then(|r| r.jsx.as_ref()).map(|t| Sx::A(ids.id(&format!("text:{}/{}", t, jsx_module))))),
      Sx::opt(resolver.as_ref().and_then(|r| r.jsx_types.as_ref()).map(|t| Sx::A(ids.id(&format!("text:{}/{}", t, jsx_module))))),
      match resolver.as_ref().and_then(|r| r.types.as_ref()) {
        None => Sx::L(vec![]),
        Some(Ok(url)) => Sx::atoms([1, ids.id(&format!("spec:{}", ModuleSpecifier::parse(url).unwrap()))]),
        Some(Err(())) => {
          // the error the builder is to record: built here from the public types
          let own = ModuleSpecifier::parse(referrer).unwrap();
          let e = ResolutionError::ResolverError {
            error: Arc::new(deno_graph::source::ResolveError::Other(deno_error::JsErrorBox::generic("no types for this module"))),
            specifier: own.to_string(),
            range: Range { specifier: own, range: PositionRange::zeroed(), resolution_mode: None },
          };
          Sx::atoms([0, ids.id(&format!("err:{}", e))])
        }
      },
    ]);
    if let Some(r) = &resolver {
      for t in [&r.jsx, &r.jsx_types].into_iter().flatten() {
        extra_texts.push(format!("{}/{}", t, jsx_module));
      }
    }
    info_extras.self_types_specifier = self_types;
    info_extras.ts_references = refs;
    info_extras.jsx_import_source = jsx;
    info_extras.jsx_import_source_types = jsx_types;
    info_extras.jsdoc_imports = jsdoc;
  }
  // what each text resolves to, alone
  let media = MediaType::from_specifier(&ModuleSpecifier::parse(referrer).unwrap());
  let code_referrer = if media.is_declaration() { referrer.replace(".d.mts", ".mts").replace(".d.ts", ".ts") } else { referrer.to_string() };
  let mut all_texts: Vec<String> = pool.iter().map(|s| s.to_string()).collect();
  for d in &descs {
    let t = match d {
      DependencyDescriptor::Static(s) => s.types_specifier.as_ref(),
      DependencyDescriptor::Dynamic(s) => s.types_specifier.as_ref(),
    };
    if let Some(t) = t {
      all_texts.push(t.text.clone());
    }
  }
  all_texts.extend(extra_texts.iter().cloned());
  all_texts.sort();
  all_texts.dedup();
  let mut exec = vec![];
  let mut types = vec![];
  // "what a text resolves to, alone": with the resolver's mapping but WITHOUT its default JSX import source -
  // in a .jsx/.tsx referrer the default source is injected as a dependency of its own, and when its text
  // equals the text asked about the two would be merged into one entry (a false difference in the table)
  let table_resolver = resolver.as_ref().map(|r| {
    let mut r2 = r.clone();
    r2.jsx = None;
    r2.jsx_types = None;
    r2
  });
  let resolver_for_table = table_resolver.as_ref();
  for t in &all_texts {
    let one = |k: StaticDependencyKind| {
      info_of(vec![DependencyDescriptor::Static(StaticDependencyDescriptor {
        kind: k,
        types_specifier: None,
        specifier: t.clone(),
        specifier_range: range_at(900, 3),
        import_attributes: ImportAttributes::None,
        is_side_effect: false,
      })])
    };
    let tid = ids.id(&format!("text:{}", t));
    if let Some(m) = parse_with(&code_referrer, GraphKind::CodeOnly, one(StaticDependencyKind::Import), resolver_for_table) {
      if let Some(d) = m.dependencies.get(t) {
        let r = rout_sx(&d.maybe_code, &mut ids);
        exec.push(Sx::L(vec![Sx::A(tid), r]));
      }
    }
    if let Some(m) = parse_with(referrer, GraphKind::TypesOnly, one(StaticDependencyKind::ImportType), resolver_for_table) {
      if let Some(d) = m.dependencies.get(t) {
        let r = rout_sx(&d.maybe_type, &mut ids);
        types.push(Sx::L(vec![Sx::A(tid), r]));
      }
    }
  }
  let shown_extras = serde_json::to_value(&info_extras).unwrap();
  let mut whole = info_extras;
  whole.dependencies = descs;
  let headers = header.as_ref().map(|h| [("x-typescript-types".to_string(), h.clone())].into_iter().collect::<HashMap<_, _>>());
  let real = parse_with_headers(referrer, kind, whole, headers, resolver.as_ref());
  let mut obs = vec![];
  let mut direct = vec![];
  let mut n_multi = 0;
  match &real {
    None => direct.push("parse_module did not produce a JS module from the provided analysis".to_string()),
    Some(m) => {
      for (text, d) in &m.dependencies {
        if d.imports.len() > 1 {
          n_multi += 1;
        }
        let tid = ids.id(&format!("text:{}", text));
        let (c, t) = (res_sx(&d.maybe_code, &mut ids), res_sx(&d.maybe_type, &mut ids));
        obs.push(Sx::L(vec![
          Sx::A(tid),
          c,
          t,
          Sx::b(d.is_dynamic),
          Sx::opt(d.maybe_deno_types_specifier.as_ref().map(|t| Sx::A(ids.id(&format!("text:{}", t))))),
          Sx::A(d.maybe_attribute_type.as_ref().map(|a| ids.id(&format!("attr:{}", a))).unwrap_or(0)),
          Sx::A(d.imports.len() as u64),
        ]));
      }
    }
  }
  let opts = Sx::L(vec![Sx::b(kind.include_types()), Sx::b(media.is_declaration()), Sx::b(media.is_typed())]);
  let (input, obs_sx) = if full {
    let zero = ids.id(&range_key(&PositionRange::zeroed()));
    let td = Sx::opt(real.as_ref().and_then(|m| m.maybe_types_dependency.as_ref()).map(|td| {
      let tid = ids.id(&format!("text:{}", td.specifier));
      Sx::L(vec![Sx::A(tid), res_sx(&td.dependency, &mut ids)])
    }));
    (
      Sx::L(vec![Sx::A(31340), opts, Sx::L(vec![Sx::b(media.is_jsx()), Sx::A(zero), Sx::A(ids.id(&format!("text:{}", ModuleSpecifier::parse(referrer).unwrap())))]), Sx::L(vec![Sx::L(exec), Sx::L(types)]), extras_sx, Sx::L(descr_sx)]),
      Sx::L(vec![Sx::L(vec![td, Sx::L(obs)])]),
    )
  } else {
    (Sx::L(vec![Sx::A(DECLTAG), opts, Sx::L(vec![Sx::L(exec), Sx::L(types)]), Sx::L(descr_sx)]), Sx::L(vec![Sx::L(obs)]))
  };
  Case {
    input,
    obs: obs_sx,
    meta: serde_json::json!({"stream": "declaration layer", "referrer": referrer, "graph_kind": format!("{:?}", kind), "descriptors": shown, "whole_declaration": full, "resolver": format!("{:?}", resolver), "extras": shown_extras, "types_header": header,
      "recorded": real.as_ref().map(|m| serde_json::to_value(&m.dependencies).unwrap())}),
    nontrivial: n_multi >= 1,
    dist: {
      let mut d = vec![(format!("decl_descriptors_{}", n), 1), (format!("decl_entries_with_several_imports_{}", n_multi.min(3)), 1)];
      if full {
        d.push((format!("decl_resolver_{}", resolver.is_some()), 1));
        if let Some(r) = &resolver {
          d.push((format!("decl_resolve_types_{}", match &r.types { None => "none", Some(Ok(_)) => "some", Some(Err(())) => "error" }), 1));
          d.push((format!("decl_default_jsx_source_{}_types_{}", r.jsx.is_some(), r.jsx_types.is_some()), 1));
          d.push((format!("decl_resolver_types_dependency_{}", real.as_ref().and_then(|m| m.maybe_types_dependency.as_ref()).map(|td| td.specifier == ModuleSpecifier::parse(referrer).unwrap().to_string()).unwrap_or(false)), 1));
        }
      }
      d
    },
    direct_violations: direct,
  }
}

pub fn run(cfg: &RunCfg) {
  let n = if cfg.tier == Tier::Quick { 4000 } else { 80000 };
  run_cases(cfg, n, gen_case);
}
