//! C17: pruning types from a full graph gives the code-only graph.
use crate::abs::*;
use crate::build::*;
use crate::common::*;
use crate::rng::Rng;
use crate::sexp::Sx;
use crate::world::*;

pub fn describe_world(world: &World) -> serde_json::Value {
  serde_json::Value::Object(
    world
      .entries
      .iter()
      .map(|(k, e)| {
        (
          k.clone(),
          match e {
            Entry::Module { src, raw, headers } => serde_json::json!({
              "module": raw.as_ref().map(|b| String::from_utf8_lossy(b).to_string()).unwrap_or_else(|| render(src, is_js_ext(k))),
              "headers": headers}),
            Entry::Redirect(t) => serde_json::json!({"redirect": t}),
            Entry::Missing => serde_json::json!("missing"),
            Entry::Error => serde_json::json!("error"),
            Entry::External => serde_json::json!("external"),
          },
        )
      })
      .collect(),
  )
}

pub fn gen_case(seed: u64, k: u64, tier: Tier) -> Case {
  let mut rng = Rng::for_case(seed, k);
  let cfg = GenCfg { assets: false, max_modules: if tier == Tier::Quick { 7 } else { 10 }, redirects: true, faults: true, same_attr_proviso: true };
  let (world, roots) = gen_world(&mut rng, &cfg);
  // default build options: the property quantifies over worlds, not over build options (with
  // skip_dynamic_deps a dynamically imported module that the all-kinds build loaded through a type edge is
  // kept by prune_types but never loaded by the code-only build; recorded in DESIGN.md as an observation)
  let mut bcfg = BuildCfg { kind: 0, ..Default::default() };
  let world_specs: Vec<String> = world.entries.keys().cloned().collect();
  if rng.chance(25) {
    // a configured import is a request without attribute: only targets not under a json attribute
    let plain: Vec<String> = world_specs.iter().filter(|s| !attr_json_target(s)).cloned().collect();
    if !plain.is_empty() {
      bcfg.imports.push(("file:///p/deno.json".to_string(), vec![rng.pick(&plain).clone()]));
    }
  }
  let g_all = new_graph(&world, &roots, &bcfg);
  let mut g_pruned = g_all.clone();
  g_pruned.prune_types();
  // the code-only build of the same roots and sources (configured type imports are types: not given)
  let ccfg = BuildCfg { kind: 1, imports: vec![], ..bcfg.clone() };
  let g_code = new_graph(&world, &roots, &ccfg);
  let mut it = build_intern_multi(&[&g_all, &g_pruned, &g_code], &world_specs);
  let ga = abs_graph(&g_all, &mut it);
  let gp = abs_graph(&g_pruned, &mut it);
  let gc = abs_graph(&g_code, &mut it);
  let proj = abs_graph_proj(&g_pruned, &mut it);
  let n_all = g_all.specifiers_count();
  let n_pruned = g_pruned.specifiers_count();
  Case {
    input: Sx::L(vec![ga, gp, gc]),
    obs: Sx::L(vec![Sx::L(vec![proj]), Sx::L(vec![Sx::judge(true)]), Sx::L(vec![Sx::judge(true)])]),
    meta: serde_json::json!({"roots": roots, "build": format!("{:?}", bcfg), "world": describe_world(&world),
      "pruned": serde_json::to_value(&g_pruned).unwrap(), "code_only": serde_json::to_value(&g_code).unwrap()}),
    nontrivial: n_all >= 3 && n_pruned < n_all,
    dist: vec![
      (format!("entries_all_{:02}", n_all.min(15)), 1),
      (format!("dropped_by_prune_{:02}", (n_all - n_pruned.min(n_all)).min(10)), 1),
    ],
    direct_violations: vec![],
  }
}

pub fn run(cfg: &RunCfg) {
  let n = if cfg.tier == Tier::Quick { 3000 } else { 60000 };
  let tier = cfg.tier;
  run_cases(cfg, n, |seed, k| gen_case(seed, k, tier));
}
