//! C05: known checksums are always enforced; new ones are recorded faithfully
//! (remote modules and the lockfile; registry manifests come with builder stage B2).
use crate::abs::*;
use crate::absworld::*;
use crate::build::*;
use crate::common::*;
use crate::props::c01::*;
use crate::props::c17::describe_world;
use crate::rng::Rng;
use crate::sexp::Sx;
use crate::world::*;
use deno_graph::source::LoaderChecksum;
use deno_graph::*;
use std::collections::BTreeMap;
use std::collections::HashMap;

pub fn gen_case(seed: u64, k: u64, tier: Tier) -> Case {
  let mut rng = Rng::for_case(seed, k);
  let mut c = gen_build_case(&mut rng, tier);
  // checksum bookkeeping is judged per specifier, for loaders that report redirects as
  // LoadResponse::Redirect (the documented way to let deno_graph know which checksum to send):
  // modules answered under another final specifier are left to the C01/C03 streams
  c.world.final_specifiers.clear();
  // mostly remote worlds: rewrite file: roots are kept (no checksums for them)
  // some sources get a BOM or are served as UTF-16 with a charset header
  let specs: Vec<String> = c.world.entries.keys().cloned().collect();
  for s in &specs {
    if !s.starts_with("http") {
      continue;
    }
    if let Some(Entry::Module { src, raw, headers }) = c.world.entries.get_mut(s) {
      if raw.is_none() && rng.chance(12) {
        let text = render(src, is_js_ext(s));
        if rng.chance(60) {
          let mut b = vec![0xEF, 0xBB, 0xBF];
          b.extend(text.as_bytes());
          *raw = Some(b);
        } else {
          let mut b = vec![];
          for u in text.encode_utf16() {
            b.extend(u.to_le_bytes());
          }
          *raw = Some(b);
          let mut h = headers.clone().unwrap_or_default();
          h.retain(|(k, _)| k != "content-type");
          h.push(("content-type".to_string(), "application/typescript; charset=utf-16le".to_string()));
          *headers = Some(h);
        }
      }
    }
  }
  // tampering: some specifiers serve different bytes under Reload
  for s in &specs {
    if s.starts_with("http") && rng.chance(15) {
      if let Some(Entry::Module { src, headers, .. }) = c.world.entries.get(s) {
        let mut src2 = src.clone();
        src2.imports.push(Imp { form: Form::Static, text: "https://h.test/nowhere.ts".to_string() });
        c.world.reload_entries.insert(s.clone(), Entry::Module { src: src2, raw: None, headers: headers.clone() });
      }
    }
  }
  // lockfile: absent (15%), or entries for a subset of remote specifiers: matching the served bytes,
  // matching only the Reload bytes, or mismatching both; also for redirecting/missing specifiers
  let mut lock: Option<BTreeMap<String, String>> = None;
  if !rng.chance(15) {
    let mut l = BTreeMap::new();
    for s in &specs {
      if !s.starts_with("http") || !rng.chance(45) {
        continue;
      }
      let served = c.world.content_of(s, false).map(|b| LoaderChecksum::r#gen(&b));
      let served_reload = c.world.content_of(s, true).map(|b| LoaderChecksum::r#gen(&b));
      let h = match rng.below(10) {
        0..=5 => served.unwrap_or_else(|| "0".repeat(64)),
        6..=7 => served_reload.unwrap_or_else(|| "1".repeat(64)),
        _ => "f".repeat(64),
      };
      l.insert(s.clone(), h);
    }
    lock = Some(l);
  }
  c.lock = lock.clone();
  let mut graph = ModuleGraph::new(graph_kind(c.bcfg.kind));
  let (log, sets) = real_build_locked(&c, &mut graph, &c.roots, &c.bcfg.imports);
  // world abstraction incl. Reload answers
  let (parsed, mut strings) = parse_world(&c);
  let mut parsed_reload: HashMap<String, ParsedMod> = HashMap::new();
  for s in c.world.reload_entries.keys() {
    if let Some(pm) = parse_world_module_at(&c.world, s, c.bcfg.kind, true) {
      if let Ok(m) = &pm.result {
        let mut set = std::collections::BTreeSet::new();
        collect_module_strings(m, &mut set);
        strings.extend(set);
      }
      parsed_reload.insert(s.clone(), pm);
    }
  }
  let mut it = build_intern_multi(&[&graph], &strings);
  let w = abs_world_full(&c.world, &parsed, &parsed_reload, c.lock.as_ref(), c.max_redirects, &mut it);
  let imps = abs_imports(&graph, &mut it);
  let obs = abs_bgraph_full(&graph, &log, &sets, &mut it);
  // self-consistency on the real code: building the SAME world again with the lockfile the first
  // build produced must not reject unchanged content
  let mut direct = vec![];
  if c.lock.is_some() && !sets.is_empty() {
    let mut l2 = c.lock.clone().unwrap();
    for (s, h) in &sets {
      l2.insert(s.clone(), h.clone());
    }
    let c2 = BuiltCase { lock: Some(l2), world: c.world.clone(), roots: c.roots.clone(), bcfg: c.bcfg.clone(), unstable: c.unstable, max_redirects: c.max_redirects };
    let mut g2 = ModuleGraph::new(graph_kind(c.bcfg.kind));
    let _ = real_build_locked(&c2, &mut g2, &c2.roots, &c2.bcfg.imports);
    for (s, _) in &sets {
      let u = ModuleSpecifier::parse(s).unwrap();
      let first_ok = graph.get(&u).is_some();
      let second_integrity = g2.module_errors().any(|e| e.specifier().as_str() == s && e.to_string().contains("ntegrity"));
      // only specifiers that serve the same bytes under both cache settings
      // ... and that no other specifier claims as its final specifier (the bytes recorded for s
      // are then not the bytes s itself serves)
      let aliased = c.world.final_specifiers.values().any(|f| f == s) || c.world.final_specifiers.contains_key(s);
      let same = c.world.content_of(s, false) == c.world.content_of(s, true) && !aliased;
      if first_ok && second_integrity && same {
        let raw = c.world.content_of(s, false).unwrap_or_default();
        let text_differs = graph.get(&u).and_then(|m| m.source().map(|t| t.as_bytes() != raw.as_slice())).unwrap_or(false);
        direct.push(format!(
          "{}the checksum recorded for {} is rejected by the loader when presented back with the unchanged content",
          if text_differs { "[class=501] " } else { "" }, s));
      }
    }
  }
  let n_lock = c.lock.as_ref().map(|l| l.len()).unwrap_or(0);
  let n_integrity = graph.module_errors().filter(|e| e.to_string().contains("ntegrity")).count();
  Case {
    input: Sx::L(vec![w, opts_sx(&c), Sx::atoms(c.roots.iter().map(|r| it.spec(r))), imps, obs.clone()]),
    obs: Sx::L(vec![Sx::L(vec![obs]), Sx::L(vec![Sx::judge(true)])]),
    meta: serde_json::json!({"roots": c.roots, "build": format!("{:?}", c.bcfg), "lockfile": c.lock,
      "world": describe_world(&c.world),
      "reload_answers": c.world.reload_entries.keys().collect::<Vec<_>>(),
      "loader_calls": log.iter().map(|l| format!("{} asset={} reload={} checksum={:?}", l.specifier, l.asset, l.reload, l.checksum.as_ref().map(|c| &c[..8]))).collect::<Vec<_>>(),
      "locker_sets": sets, "graph": serde_json::to_value(&graph).unwrap()}),
    nontrivial: n_lock >= 1 && (n_integrity >= 1 || !sets.is_empty()),
    dist: vec![
      (if c.lock.is_some() { format!("lock_entries_{}", n_lock.min(6)) } else { "no_locker".to_string() }, 1),
      (format!("integrity_errors_{}", n_integrity.min(4)), 1),
      (format!("recorded_{}", sets.len().min(6)), 1),
      ("reload_calls".to_string(), log.iter().filter(|l| l.reload).count() as u64),
    ],
    direct_violations: direct,
  }
}

pub fn run(cfg: &RunCfg) {
  let n = if cfg.tier == Tier::Quick { 3000 } else { 60000 };
  // registry (stage B2) worlds: manifest checksums, lockfile package checksums, https URLs into the registry
  let nj = if cfg.tier == Tier::Quick { 3000 } else { 60000 };
  let tier = cfg.tier;
  // registries whose package files are also imported as assets: the real loader calls are judged
  let na = if cfg.tier == Tier::Quick { 800 } else { 20000 };
  run_cases(cfg, n + nj + na, |seed, k| {
    if k < n {
      gen_case(seed, k, tier)
    } else if k < n + nj {
      crate::props::jsr::gen_case(seed, k - n, crate::props::jsr::Flavour::Checksums)
    } else {
      crate::props::jsr::gen_case_asset_calls(seed, k - n - nj)
    }
  });
}
