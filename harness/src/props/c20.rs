//! C20: module text and original bytes are faithful to what the loader supplied.
//!
//! One case = one byte string, served to the REAL code under every combination
//! of content-type header x scheme (file:, https:) x media (ts, js, json) and
//! through three routes: the public `deno_graph::parse_module`, a real graph
//! build whose loader serves the bytes + headers, and (https only) a real build
//! of a JSR package whose version manifest carries the module info, so that the
//! builder fills the content in afterwards (deferred content load).  Observed per combination:
//! error vs module, stored text bytes, decoded kind, try_get_original_bytes(),
//! size() and the serialised `size`.  The observation is also part of the model
//! input: the extracted decision procedure (C20_holdsb_correct) judges it.
//!
//! Byte strings: exhaustive over all strings of length <= 3 over DESIGN's
//! alphabet, exhaustive length <= 2 over an extended alphabet (surrogate lead
//! bytes, second-byte boundaries, ESC), then structured/random longer strings.
use crate::common::*;
use crate::rng::Rng;
use crate::sexp::Sx;
use crate::world::InlineExecutor;
use deno_graph::analysis::ModuleAnalyzer;
use deno_graph::analysis::ModuleInfo;
use deno_graph::ast::DefaultModuleAnalyzer;
use deno_graph::source::*;
use deno_graph::*;
use futures::FutureExt;
use std::collections::HashMap;
use std::sync::Arc;

pub const ALPHA_BASE: [u8; 15] =
  [0x00, 0x0A, 0x41, 0x7F, 0x80, 0xBF, 0xC2, 0xE0, 0xED, 0xEF, 0xBB, 0xF0, 0xF4, 0xFE, 0xFF];
pub const ALPHA_EXT: [u8; 22] = [
  0x00, 0x0A, 0x41, 0x7F, 0x80, 0xBF, 0xC2, 0xE0, 0xED, 0xEF, 0xBB, 0xF0, 0xF4, 0xFE, 0xFF, 0xD8, 0xDC, 0x9F, 0xA0,
  0x8F, 0x90, 0x1B,
];

/// all strings over `alpha` of length <= max_len, shortest first
fn count_upto(alpha: usize, max_len: usize) -> u64 {
  (0..=max_len).map(|l| (alpha as u64).pow(l as u32)).sum()
}
fn nth_string(alpha: &[u8], mut idx: u64) -> Vec<u8> {
  let a = alpha.len() as u64;
  let mut len = 0u32;
  loop {
    let c = a.pow(len);
    if idx < c {
      break;
    }
    idx -= c;
    len += 1;
  }
  let mut v = vec![0u8; len as usize];
  for i in (0..len as usize).rev() {
    v[i] = alpha[(idx % a) as usize];
    idx /= a;
  }
  v
}

/// media part of the content-type for the three module media
const MEDIA: [(&str, &str); 3] = [("ts", "application/typescript"), ("js", "text/javascript"), ("json", "application/json")];

/// charset parameter tails; `M` is replaced by the media part. DESIGN's ten
/// header shapes (the tenth, "none", is header index 0) plus media-only.
const CORE_HEADERS: [&str; 10] = [
  "M",
  "M; charset=utf-8",
  "M; charset=UTF-8",
  "M;charset=utf8",
  "M; charset=utf-16le",
  "M; charset=utf-16be",
  "M; charset=windows-1252",
  "M; charset=bogus",
  "M; foo=bar; charset=utf-16le",
  "M; a=b; c=d ;   charset=utf-8  ",
];

const EXTRA_HEADERS: [&str; 46] = [
  "M; charset= utf-16be ",
  "M; Charset=utf-16le",
  "M; CHARSET=utf-16be",
  "M; charset=\"utf-8\"",
  "M; charset='utf-16le'",
  "M; charset=utf-16",
  "M; charset=UTF-16",
  "M; charset=iso-2022-jp",
  "M; charset=replacement",
  "M; charset=iso-2022-kr",
  "M; charset=unicodefffe",
  "M; charset=utf-8; charset=utf-16le",
  "M; xcharset=utf-16le; charset=utf-8",
  "M; charset=",
  "M; charset",
  "M; charset=ascii",
  "M; charset=latin1",
  "M; charset=gb18030",
  "M; charset=gbk",
  "M; charset=shift_jis",
  "M; charset=euc-kr",
  "M; charset=big5",
  "M; charset=koi8-r",
  "M; charset=x-user-defined",
  "M; charset=utf-7",
  "M; charset=utf-32",
  "M; charset=utf-32le",
  "M;\u{a0}charset=UTF-16LE\u{3000}",
  "M; charset=\u{b}utf-8",
  "M; charset=utf-8\u{c}",
  "M; charset=\tUtF-8",
  "M; charset=utf-8 x",
  "M; charset=utf-8\u{e9}",
  "M; charset=unicode-1-1-utf-8",
  "M; charset=unicode11utf8",
  "M; charset=unicode20utf8",
  "M; charset=x-unicode20utf8",
  "M; charset=csunicode",
  "M; charset=iso-10646-ucs-2",
  "M; charset=ucs-2",
  "M; charset=unicode",
  "M; charset=UnicodeFEFF",
  "M; charset=utf-16le;",
  "text/plain; charset=utf-16le",
  "charset=utf-16le",
  ";charset=utf-16be",
];
// (unsupported media type, to see that no text module is made)
const CSS_HEADER: &str = "text/css; charset=utf-8";

struct Analyzer;
#[async_trait::async_trait(?Send)]
impl ModuleAnalyzer for Analyzer {
  async fn analyze(
    &self,
    specifier: &ModuleSpecifier,
    source: Arc<str>,
    media_type: MediaType,
  ) -> Result<ModuleInfo, deno_error::JsErrorBox> {
    // the real analyser; a source that does not parse still becomes a module
    // (with no dependencies) so that its stored text can be observed
    // (a text that still starts with U+FEFF - two BOMs in the file - makes deno_ast panic in
    // debug builds: "BOM should be stripped from text before providing it to deno_ast"; that
    // is outside C20, so such a text is not handed to the real parser)
    if source.starts_with('\u{feff}') {
      return Ok(ModuleInfo::default());
    }
    match DefaultModuleAnalyzer.analyze(specifier, source, media_type).await {
      Ok(info) => Ok(info),
      Err(e) => {
        if specifier.path().ends_with("/root.ts") {
          Err(e)
        } else {
          Ok(ModuleInfo::default())
        }
      }
    }
  }
}

struct MapLoader {
  map: HashMap<String, (Arc<[u8]>, Option<HashMap<String, String>>)>,
  /// JSR package files are not in the cache (cache-only probes miss)
  jsr_uncached: bool,
}
const JSR_PKG: &str = "https://jsr.io/@s/p/1.0.0/";
impl Loader for MapLoader {
  fn load(&self, specifier: &ModuleSpecifier, options: LoadOptions) -> LoadFuture {
    // package files are "not in the cache": the builder then takes the module info from the
    // version manifest and fills the content in later (deferred content load)
    if self.jsr_uncached && options.cache_setting == CacheSetting::Only && specifier.as_str().starts_with(JSR_PKG) {
      return async move { Ok(None) }.boxed_local();
    }
    let r = match self.map.get(specifier.as_str()) {
      Some((content, headers)) => Ok(Some(LoadResponse::Module {
        content: content.clone(),
        mtime: None,
        specifier: specifier.clone(),
        maybe_headers: headers.clone(),
      })),
      None => Ok(None),
    };
    async move { r }.boxed_local()
  }
}

/// media class as parse_module_source_and_info treats the resolved media type
fn media_class(mt: MediaType, is_root: bool) -> u64 {
  match mt {
    MediaType::JavaScript
    | MediaType::Mjs
    | MediaType::Jsx
    | MediaType::TypeScript
    | MediaType::Mts
    | MediaType::Tsx
    | MediaType::Cjs
    | MediaType::Cts
    | MediaType::Dts
    | MediaType::Dmts
    | MediaType::Dcts => 0,
    MediaType::Json => 1,
    MediaType::Unknown if is_root => 0,
    _ => 2,
  }
}

/// Oracle for labels the model does not decode itself: what encoding_rs says.
fn oracle(label: &str, bytes: &[u8]) -> Sx {
  match encoding_rs::Encoding::for_label(label.as_bytes()) {
    None => Sx::opt(None),
    Some(e) if e == encoding_rs::UTF_8 || e == encoding_rs::UTF_16LE || e == encoding_rs::UTF_16BE => Sx::opt(None),
    Some(e) => {
      let rule = if e == encoding_rs::REPLACEMENT {
        2
      } else if e == encoding_rs::ISO_2022_JP {
        1
      } else {
        0
      };
      let (text, _) = e.decode_without_bom_handling(bytes);
      Sx::opt(Some(Sx::L(vec![Sx::A(rule), Sx::atoms(text.chars().map(|c| c as u64))])))
    }
  }
}

fn bytes_sx(b: &[u8]) -> Sx {
  Sx::atoms(b.iter().map(|x| *x as u64))
}

struct Observed {
  tag: u64,
  kind: u64,
  text: Vec<u8>,
  orig: Option<Vec<u8>>,
  size: u64,
  ssize: u64,
}

fn observe_source(source: &ModuleTextSource, size: usize, json: &serde_json::Value, tag: u64, direct: &mut Vec<String>, what: &str) -> Observed {
  let text_before = source.text.as_bytes().to_vec();
  let kind = match format!("{:?}", source.decoded_kind).as_str() {
    "Unchanged" => 0,
    "Changed" => 1,
    "OnlyUtf8Bom" => 2,
    _ => 7,
  };
  let orig = source.try_get_original_bytes().map(|a| a.to_vec());
  // the reinterpreting clone must leave the stored text intact and be repeatable
  let orig2 = source.try_get_original_bytes().map(|a| a.to_vec());
  if orig != orig2 || source.text.as_bytes() != &text_before[..] {
    direct.push(format!("{}: try_get_original_bytes is not repeatable or disturbed the stored text", what));
  }
  if std::str::from_utf8(&text_before).is_err() {
    direct.push(format!("{}: stored text is not valid UTF-8", what));
  }
  Observed {
    tag,
    kind,
    text: text_before,
    orig,
    size: size as u64,
    ssize: json.get("size").and_then(|v| v.as_u64()).unwrap_or(999_999_999),
  }
}

fn observe_module(m: &Module, direct: &mut Vec<String>, what: &str) -> Observed {
  let json = serde_json::to_value(m).unwrap_or(serde_json::Value::Null);
  match m {
    Module::Js(js) => observe_source(&js.source, js.size(), &json, 2, direct, what),
    Module::Json(j) => observe_source(&j.source, j.size(), &json, 3, direct, what),
    _ => Observed { tag: 5, kind: 9, text: vec![], orig: None, size: 0, ssize: 0 },
  }
}

fn observe_error(e: &ModuleError) -> Observed {
  let tag = match e.as_kind() {
    ModuleErrorKind::Load { err: ModuleLoadError::Decode(_), .. } => 0,
    ModuleErrorKind::UnsupportedMediaType { .. } => 1,
    _ => 4,
  };
  Observed { tag, kind: 9, text: vec![], orig: None, size: 0, ssize: 0 }
}

struct Combo {
  hidx: usize, // 0 = no headers
  is_file: bool,
  media: usize,
  spec: String,
  headers: Option<HashMap<String, String>>,
}

/// the strings of the structured / random stream
fn gen_bytes(rng: &mut Rng, tier: Tier) -> (Vec<u8>, &'static str) {
  fn utf8_of(c: u32, out: &mut Vec<u8>) {
    let ch = char::from_u32(c).unwrap_or('\u{fffd}');
    let mut b = [0u8; 4];
    out.extend(ch.encode_utf8(&mut b).as_bytes());
  }
  fn utf16_of(c: u32, be: bool, out: &mut Vec<u8>) {
    let ch = char::from_u32(c).unwrap_or('\u{fffd}');
    let mut b = [0u16; 2];
    for u in ch.encode_utf16(&mut b) {
      out.extend(if be { u.to_be_bytes() } else { u.to_le_bytes() });
    }
  }
  const CPS: [u32; 22] = [
    0x00, 0x0A, 0x41, 0x7F, 0x80, 0xE9, 0x7FF, 0x800, 0xFFF, 0x1000, 0xD7FF, 0xE000, 0xFEFF, 0xFFFD, 0xFFFE, 0xFFFF,
    0x10000, 0x1F600, 0x3FFFF, 0x40000, 0x100000, 0x10FFFF,
  ];
  fn some_cp(rng: &mut Rng) -> u32 {
    if rng.chance(60) {
      *rng.pick(&CPS)
    } else {
      let c = match rng.below(4) {
        0 => rng.below(0x80),
        1 => rng.range(0x80, 0x7FF),
        2 => rng.range(0x800, 0xFFFF),
        _ => rng.range(0x10000, 0x10FFFF),
      } as u32;
      if (0xD800..=0xDFFF).contains(&c) { 0xE000 } else { c }
    }
  }
  let max_units = if tier == Tier::Quick { 12 } else { 40 };
  let n = rng.range(1, max_units);
  let mode = rng.below(10);
  let mut out = vec![];
  let name;
  match mode {
    0 | 1 => {
      name = "valid_utf8";
      if rng.chance(40) {
        out.extend([0xEF, 0xBB, 0xBF]);
      }
      for _ in 0..n {
        let c = some_cp(rng);
        utf8_of(c, &mut out);
      }
    }
    2 => {
      name = "js_source";
      match rng.below(3) {
        0 => out.extend([0xEF, 0xBB, 0xBF]),
        1 if rng.chance(50) => out.extend([0xEF, 0xBB, 0xBF, 0xEF, 0xBB, 0xBF]),
        _ => {}
      }
      out.extend("export const a = \"\u{e9}\u{1F600}\";\n// \u{feff}\n".as_bytes());
    }
    3 | 4 => {
      let be = rng.chance(50);
      name = if be { "utf16be" } else { "utf16le" };
      match rng.below(4) {
        0 => out.extend(if be { [0xFE, 0xFF] } else { [0xFF, 0xFE] }),
        1 => out.extend(if be { [0xFF, 0xFE] } else { [0xFE, 0xFF] }), // the other BOM
        _ => {}
      }
      for _ in 0..n {
        match rng.below(10) {
          0 => {
            // lone high surrogate
            let u = rng.range(0xD800, 0xDBFF) as u16;
            out.extend(if be { u.to_be_bytes() } else { u.to_le_bytes() });
          }
          1 => {
            let u = rng.range(0xDC00, 0xDFFF) as u16;
            out.extend(if be { u.to_be_bytes() } else { u.to_le_bytes() });
          }
          _ => {
            let c = some_cp(rng);
            utf16_of(c, be, &mut out);
          }
        }
      }
      if rng.chance(30) {
        out.push(*rng.pick(&[0x00u8, 0x41, 0xD8, 0xDC, 0xFF]));
      }
    }
    5 => {
      name = "utf16_js_source";
      let be = rng.chance(50);
      if rng.chance(70) {
        out.extend(if be { [0xFE, 0xFF] } else { [0xFF, 0xFE] });
      }
      for c in "export const b = 2;\n".chars() {
        utf16_of(c as u32, be, &mut out);
      }
    }
    6 | 7 => {
      name = "malformed_mix";
      const BAD: [&[u8]; 26] = [
        &[0xC0, 0x80], &[0xC1, 0xBF], &[0xE0, 0x80, 0x80], &[0xE0, 0x9F, 0xBF], &[0xED, 0xA0, 0x80], &[0xED, 0xBF, 0xBF],
        &[0xF0, 0x80, 0x80, 0x80], &[0xF0, 0x8F, 0xBF, 0xBF], &[0xF4, 0x90, 0x80, 0x80], &[0xF5, 0x80, 0x80, 0x80],
        &[0xF8, 0x88, 0x80, 0x80, 0x80], &[0xC2], &[0xE0, 0xA0], &[0xE1, 0x80], &[0xF0, 0x90], &[0xF0, 0x90, 0x80],
        &[0xF4, 0x8F, 0xBF], &[0x80], &[0xBF], &[0xFE], &[0xFF], &[0xEF, 0xBB], &[0xEF, 0xBB, 0xBF], &[0xFF, 0xFE],
        &[0xFE, 0xFF], &[0x84, 0x31, 0x95, 0x33],
      ];
      for _ in 0..n {
        match rng.below(10) {
          0..=3 => out.extend(*rng.pick(&BAD)),
          4..=6 => {
            let c = some_cp(rng);
            utf8_of(c, &mut out);
          }
          7 => out.extend([0x1B, 0x24, 0x42]),
          _ => out.push(rng.below(256) as u8),
        }
      }
    }
    8 => {
      name = "random_bytes";
      for _ in 0..n {
        out.push(if rng.chance(50) { *rng.pick(&ALPHA_EXT) } else { rng.below(256) as u8 });
      }
    }
    _ => {
      name = "truncated_valid";
      if rng.chance(50) {
        out.extend([0xEF, 0xBB, 0xBF]);
      }
      for _ in 0..n {
        let c = some_cp(rng);
        utf8_of(c, &mut out);
      }
      let cut = rng.below(out.len() + 1);
      out.truncate(cut);
    }
  }
  (out, name)
}

pub struct Plan {
  pub n_base: u64, // cases of the base enumeration = strings x 3 media
  pub n_ext: u64,
  pub n_rand: u64,
  pub base_len: usize,
  pub ext_len: usize,
}

pub fn plan(tier: Tier) -> Plan {
  let (base_len, ext_len, n_rand) = if tier == Tier::Quick { (3, 2, 6000) } else { (4, 3, 90_000) };
  Plan {
    n_base: 3 * count_upto(ALPHA_BASE.len(), base_len),
    n_ext: 3 * count_upto(ALPHA_EXT.len(), ext_len),
    n_rand,
    base_len,
    ext_len,
  }
}

pub fn gen_case(seed: u64, k: u64, tier: Tier) -> Case {
  let p = plan(tier);
  let mut rng = Rng::for_case(seed, k);
  // ---- the byte string and the header set of this case
  // one case = (byte string, media); in the two enumerations case k is string k / 3 with media k % 3
  let the_media = (k % 3) as usize;
  let (bytes, stream, header_tpls): (Vec<u8>, &str, Vec<&str>) = if k < p.n_base {
    (nth_string(&ALPHA_BASE, k / 3), "exhaustive_base", CORE_HEADERS.to_vec())
  } else if k < p.n_base + p.n_ext {
    let b = nth_string(&ALPHA_EXT, (k - p.n_base) / 3);
    let mut h = CORE_HEADERS.to_vec();
    if b.len() <= 1 {
      // every header shape
      h.extend(EXTRA_HEADERS);
    } else {
      // a rotating window of 16 of the extra header shapes
      let start = (((k - p.n_base) / 3) as usize * 7) % EXTRA_HEADERS.len();
      for j in 0..16 {
        h.push(EXTRA_HEADERS[(start + j) % EXTRA_HEADERS.len()]);
      }
    }
    h.push(CSS_HEADER);
    (b, "exhaustive_ext", h)
  } else {
    let (b, name) = gen_bytes(&mut rng, tier);
    let mut all = CORE_HEADERS.to_vec();
    all.extend(EXTRA_HEADERS);
    all.push(CSS_HEADER);
    let mut h = vec![];
    for _ in 0..6 {
      let t = *rng.pick(&all);
      if !h.contains(&t) {
        h.push(t);
      }
    }
    (b, name, h)
  };
  let content: Arc<[u8]> = Arc::from(bytes.clone());

  // ---- combinations
  let mut combos: Vec<Combo> = vec![];
  // header table of the model input: index 1.. ; one entry per (template, media)
  let mut table: Vec<Sx> = vec![];
  let mut direct = vec![];
  for (mi, (ext, mpart)) in MEDIA.iter().enumerate() {
    if mi != the_media {
      continue;
    }
    for hi in 0..=header_tpls.len() {
      let value: Option<String> = if hi == 0 { None } else { Some(header_tpls[hi - 1].replace('M', mpart)) };
      let hidx = match &value {
        None => 0,
        Some(v) => {
          // oracle for this header's label on these bytes, through the public header resolver
          let mut hm = HashMap::new();
          hm.insert("content-type".to_string(), v.clone());
          let any = ModuleSpecifier::parse("https://h.test/x.ts").unwrap();
          let (_, cs) = resolve_media_type_and_charset_from_headers(&any, Some(&hm));
          let other = match cs {
            Some(label) => oracle(label, &bytes),
            None => Sx::opt(None),
          };
          table.push(Sx::L(vec![Sx::atoms(v.chars().map(|c| c as u64)), other]));
          table.len()
        }
      };
      for is_file in [true, false] {
        let spec = format!("{}c{}_{}.{}", if is_file { "file:///p/" } else { "https://h.test/" }, mi, hi, ext);
        let headers = value.as_ref().map(|v| {
          let mut hm = HashMap::new();
          hm.insert("content-type".to_string(), v.clone());
          hm
        });
        combos.push(Combo { hidx, is_file, media: mi, spec, headers });
      }
    }
  }

  // ---- ModuleTextSource::new_unknown (C20_new_unknown): never offers original bytes
  if let Ok(t) = std::str::from_utf8(&bytes) {
    let src = ModuleTextSource::new_unknown(Arc::from(t));
    if src.try_get_original_bytes().is_some() || src.text.as_bytes() != &bytes[..] {
      direct.push("ModuleTextSource::new_unknown offers original bytes or changed its text".to_string());
    }
  }

  // ---- route 1: one real graph build serving every combination
  let mut root_src = String::new();
  let mut loader = MapLoader { map: HashMap::new(), jsr_uncached: true };
  for (i, c) in combos.iter().enumerate() {
    let url = ModuleSpecifier::parse(&c.spec).unwrap();
    let (mt, _) = resolve_media_type_and_charset_from_headers(&url, c.headers.as_ref());
    if mt == MediaType::Json {
      root_src.push_str(&format!("import j{} from \"{}\" with {{ type: \"json\" }};\n", i, c.spec));
    } else {
      root_src.push_str(&format!("import \"{}\";\n", c.spec));
    }
    loader.map.insert(c.spec.clone(), (content.clone(), c.headers.clone()));
  }
  let root = "file:///p/root.ts".to_string();
  loader.map.insert(root.clone(), (Arc::from(root_src.into_bytes()), None));
  let mut graph = ModuleGraph::new(GraphKind::All);
  let exec = InlineExecutor;
  let analyzer = Analyzer;
  futures::executor::block_on(graph.build(
    vec![ModuleSpecifier::parse(&root).unwrap()],
    vec![],
    &loader,
    BuildOptions { executor: &exec, module_analyzer: &analyzer, ..Default::default() },
  ));
  if graph.get(&ModuleSpecifier::parse(&root).unwrap()).is_none() {
    direct.push("harness: root module of the build route did not load".to_string());
  }

  // ---- route 2: JSR package whose version manifest carries the module info, so that the content
  // of every module is filled in afterwards (handle_jsr_registry_pending_content_loads)
  let mut jroot_src = String::new();
  let mut jloader = MapLoader { map: HashMap::new(), jsr_uncached: true };
  let mut exports = serde_json::Map::new();
  let mut mg2 = serde_json::Map::new();
  for (i, c) in combos.iter().enumerate() {
    if c.is_file {
      continue;
    }
    let file = c.spec.rsplit('/').next().unwrap().to_string(); // c<mi>_<hi>.<ext>
    let name = file.split('.').next().unwrap().to_string();
    exports.insert(format!("./{}", name), serde_json::json!(format!("./{}", file)));
    mg2.insert(format!("/{}", file), serde_json::json!({}));
    if file.ends_with(".json") {
      jroot_src.push_str(&format!("import j{} from \"jsr:@s/p@1.0.0/{}\" with {{ type: \"json\" }};\n", i, name));
    } else {
      jroot_src.push_str(&format!("import \"jsr:@s/p@1.0.0/{}\";\n", name));
    }
    jloader.map.insert(format!("{}{}", JSR_PKG, file), (content.clone(), c.headers.clone()));
  }
  jloader.map.insert(
    "https://jsr.io/@s/p/meta.json".to_string(),
    (Arc::from(serde_json::json!({"versions": {"1.0.0": {}}}).to_string().into_bytes()), None),
  );
  jloader.map.insert(
    "https://jsr.io/@s/p/1.0.0_meta.json".to_string(),
    (Arc::from(serde_json::json!({"exports": exports, "manifest": {}, "moduleGraph2": mg2}).to_string().into_bytes()), None),
  );
  let jroot = "file:///p/jroot.ts".to_string();
  jloader.map.insert(jroot.clone(), (Arc::from(jroot_src.into_bytes()), None));
  let mut jgraph = ModuleGraph::new(GraphKind::All);
  futures::executor::block_on(jgraph.build(
    vec![ModuleSpecifier::parse(&jroot).unwrap()],
    vec![],
    &jloader,
    BuildOptions { executor: &exec, module_analyzer: &analyzer, ..Default::default() },
  ));
  if std::env::var("C20_DEBUG_JSR").is_ok() {
    eprintln!("{}", serde_json::to_string_pretty(&jgraph).unwrap());
  }
  if jgraph.get(&ModuleSpecifier::parse(&jroot).unwrap()).is_none() {
    direct.push("harness: root module of the JSR route did not load".to_string());
  }

  // ---- route 3 (streams other than the base enumeration): the same package, but its files are
  // in the cache, so the builder parses them at once and the response headers are looked at
  let with_cached_route = k >= p.n_base;
  let mut cgraph = ModuleGraph::new(GraphKind::All);
  if with_cached_route {
    jloader.jsr_uncached = false;
    futures::executor::block_on(cgraph.build(
      vec![ModuleSpecifier::parse(&jroot).unwrap()],
      vec![],
      &jloader,
      BuildOptions { executor: &exec, module_analyzer: &analyzer, ..Default::default() },
    ));
    if cgraph.get(&ModuleSpecifier::parse(&jroot).unwrap()).is_none() {
      direct.push("harness: root module of the cached JSR route did not load".to_string());
    }
  }

  // ---- observe the routes
  let mut elems = vec![];
  let mut obs = vec![];
  let mut kinds = [0u64; 3];
  let mut n_decode_err = 0u64;
  let mut n_orig_some = 0u64;
  let mut outcomes = std::collections::BTreeSet::new();
  for c in &combos {
    let url = ModuleSpecifier::parse(&c.spec).unwrap();
    let (mt, cs) = resolve_media_type_and_charset_from_headers(&url, c.headers.as_ref());
    let cs_sx = Sx::opt(cs.map(|l| Sx::atoms(l.chars().map(|ch| ch as u64))));
    for route in 0..(if c.is_file { 2u64 } else if with_cached_route { 4u64 } else { 3u64 }) {
      let what = format!("{} route {}", c.spec, route);
      let (o, mclass) = if route == 3 {
        let file = c.spec.rsplit('/').next().unwrap();
        let jurl = ModuleSpecifier::parse(&format!("{}{}", JSR_PKG, file)).unwrap();
        // the package's root imports *.json with `type: "json"` and the rest without (it is shared
        // with route 2, which goes by the URL); where the header's media type contradicts that the
        // code answers with a type-assertion / media-type error that is not C20's subject
        if file.ends_with(".json") != (resolve_media_type_and_charset_from_headers(&jurl, c.headers.as_ref()).0 == MediaType::Json) {
          continue;
        }
        let o = match cgraph.try_get(&jurl) {
          Ok(Some(m)) => observe_module(m, &mut direct, &what),
          Ok(None) => Observed { tag: 6, kind: 9, text: vec![], orig: None, size: 0, ssize: 0 },
          Err(e) => observe_error(e),
        };
        let (jmt, _) = resolve_media_type_and_charset_from_headers(&jurl, c.headers.as_ref());
        (o, media_class(jmt, false))
      } else if route == 2 {
        let file = c.spec.rsplit('/').next().unwrap();
        let jurl = ModuleSpecifier::parse(&format!("{}{}", JSR_PKG, file)).unwrap();
        let o = match jgraph.try_get(&jurl) {
          Ok(Some(m)) => observe_module(m, &mut direct, &what),
          Ok(None) => Observed { tag: 6, kind: 9, text: vec![], orig: None, size: 0, ssize: 0 },
          Err(e) => observe_error(e),
        };
        // the headers of the deferred response are not looked at: media type from the URL
        (o, media_class(MediaType::from_specifier(&jurl), false))
      } else if route == 0 {
        let r = futures::executor::block_on(parse_module(ParseModuleOptions {
          graph_kind: GraphKind::All,
          specifier: url.clone(),
          maybe_headers: c.headers.clone(),
          mtime: None,
          content: content.clone(),
          file_system: &NullFileSystem,
          jsr_url_provider: Default::default(),
          maybe_resolver: None,
          module_analyzer: &analyzer,
        }));
        let o = match &r {
          Ok(m) => observe_module(m, &mut direct, &what),
          Err(e) => observe_error(e),
        };
        (o, media_class(mt, true))
      } else {
        let o = match graph.try_get(&url) {
          Ok(Some(m)) => observe_module(m, &mut direct, &what),
          Ok(None) => Observed { tag: 6, kind: 9, text: vec![], orig: None, size: 0, ssize: 0 },
          Err(e) => observe_error(e),
        };
        (o, media_class(mt, false))
      };
      if o.tag == 0 {
        n_decode_err += 1;
      }
      if o.kind < 3 {
        kinds[o.kind as usize] += 1;
      }
      if o.orig.is_some() {
        n_orig_some += 1;
      }
      outcomes.insert((o.tag, o.kind));
      let orig_sx = Sx::opt(o.orig.as_ref().map(|b| bytes_sx(b)));
      elems.push(Sx::L(vec![
        Sx::A(c.hidx as u64),
        Sx::b(c.is_file),
        Sx::A(mclass),
        Sx::A(route),
        Sx::L(vec![Sx::A(o.tag), bytes_sx(&o.text), orig_sx.clone(), Sx::A(o.size), Sx::A(o.ssize)]),
      ]));
      obs.push(Sx::L(vec![
        cs_sx.clone(),
        Sx::A(o.tag),
        Sx::A(o.kind),
        bytes_sx(&o.text),
        orig_sx,
        Sx::A(o.size),
        Sx::A(o.ssize),
        Sx::judge(true),
      ]));
      let _ = c.media;
    }
  }
  let n_elems = elems.len() as u64;
  Case {
    input: Sx::L(vec![bytes_sx(&bytes), Sx::L(table), Sx::L(elems)]),
    obs: Sx::L(obs),
    meta: serde_json::json!({
      "bytes_hex": bytes.iter().map(|b| format!("{:02x}", b)).collect::<Vec<_>>().join(" "),
      "stream": stream,
      "media": MEDIA[the_media].0,
      "headers": header_tpls,
      "element_order": "header(none, then the listed ones with M = media part) x scheme(file,https) x route(0 parse_module, 1 graph build, 2 [https only] JSR package with deferred content fill, 3 [https only, not in the base enumeration] JSR package served from the cache)",
    }),
    nontrivial: !bytes.is_empty() && outcomes.len() >= 2,
    dist: vec![
      (format!("stream_{}", stream), 1),
      (format!("media_{}", MEDIA[the_media].0), 1),
      (format!("len_{:02}", bytes.len().min(40)), 1),
      ("combinations".to_string(), n_elems),
      ("kind_unchanged".to_string(), kinds[0]),
      ("kind_changed".to_string(), kinds[1]),
      ("kind_only_utf8_bom".to_string(), kinds[2]),
      ("decode_errors".to_string(), n_decode_err),
      ("original_bytes_some".to_string(), n_orig_some),
      (format!("valid_utf8_{}", std::str::from_utf8(&bytes).is_ok()), 1),
    ],
    direct_violations: direct,
  }
}

pub fn run(cfg: &RunCfg) {
  let p = plan(cfg.tier);
  let n = p.n_base + p.n_ext + p.n_rand;
  let tier = cfg.tier;
  run_cases(cfg, n, |seed, k| gen_case(seed, k, tier));
  // record what was enumerated exhaustively
  if cfg.only_case.is_none() {
    let path = cfg.out_dir.join("stats.json");
    let mut stats: serde_json::Value = serde_json::from_str(&std::fs::read_to_string(&path).unwrap()).unwrap();
    stats["distribution"]["exhaustive"] = serde_json::json!(format!(
      "all {} byte strings of length <= {} over {:02x?} x 11 header shapes x (file,https) x (ts,js,json) x routes (parse_module, graph build, and for https the JSR deferred content fill); all {} strings of length <= {} over the extended alphabet {:02x?} x (58 header shapes for length <= 1, 28 rotating ones above) x same",
      p.n_base / 3, p.base_len, ALPHA_BASE, p.n_ext / 3, p.ext_len, ALPHA_EXT
    ));
    std::fs::write(&path, serde_json::to_string_pretty(&stats).unwrap()).unwrap();
  }
}
