//! Registry (stage B2) cases shared by the C03, C04, C05, C07 and C13 drivers:
//! a generated registry world is built by the real builder and by the model
//! (coq/Model/Jsr.v); the graphs, package tables, loader calls and locker
//! calls must agree.
use crate::common::*;
use crate::jsrworld::*;
use crate::rng::Rng;
use crate::sexp::Sx;
use crate::abs::pending_specs;
use std::collections::BTreeSet;

#[derive(Clone, Copy, PartialEq, Eq, Debug)]
pub enum Flavour {
  Faults,    // C03: fault heavy
  Checksums, // C05: lockers, tampering
  Mapping,   // C07: clean registries, many requirements
  Versions,  // C06: version selection at graph level
  Closure,   // C01: mixed worlds, plus the judgement that nothing unreachable is present
  Mixed,
}

pub fn cfg_for(f: Flavour) -> JGenCfg {
  match f {
    Flavour::Faults => JGenCfg { faults: 28, locker: 30, stale_meta: 25, ..Default::default() },
    Flavour::Checksums => JGenCfg { faults: 10, locker: 100, https_imports: 30, ..Default::default() },
    Flavour::Mapping => JGenCfg { faults: 3, locker: 20, weird_exports: 15, stale_meta: 10, ..Default::default() },
    Flavour::Versions => JGenCfg { faults: 3, locker: 10, prefer_cached: 50, stale_meta: 30, weird_exports: 2, seeds: 45, dates: 45, ..Default::default() },
    Flavour::Mixed | Flavour::Closure => JGenCfg::default(),
  }
}

pub fn describe(c: &JCase) -> serde_json::Value {
  let show = |m: &std::collections::BTreeMap<String, crate::world::Entry>, only: bool| -> serde_json::Value {
    let mut o = serde_json::Map::new();
    for (k, e) in m {
      let v = match e {
        crate::world::Entry::Module { .. } => {
          let b = if only { c.world.only_content(k) } else { c.world.content(k) }.unwrap_or_default();
          serde_json::json!({"module": String::from_utf8_lossy(&b), "final": c.world.final_specifiers.get(k)})
        }
        other => serde_json::json!(format!("{:?}", other)),
      };
      o.insert(k.clone(), v);
    }
    serde_json::Value::Object(o)
  };
  serde_json::json!({
    "roots": c.roots, "prefer_cached_jsr_versions": c.prefer_cached, "newest_dependency_date": c.newest_date, "date_exclude": c.date_exclude, "date_exclude_prefixes": c.date_exclude_prefixes, "lock_pkg": c.lock_pkg, "lock_remote": c.lock_remote, "lockfile_package_specifiers": c.seed,
    "notes": c.notes, "use": show(&c.world.entries, false), "reload": show(&c.world.reload_entries, false),
    "only": show(&c.world.only_entries, true),
  })
}

/// Builds `c` with the real builder and abstracts world and result.
pub fn case_of(c: &JCase, extra_direct: Vec<String>, extra_dist: Vec<(String, u64)>) -> Case {
  case_of_judged(c, extra_direct, extra_dist, false)
}

/// `judged`: the model also judges the graph (C01: no entry is unreachable from the roots; C06: the
/// lockfile-seeded selections are honoured); the observation carries the expected verdict.
pub fn case_of_judged(c: &JCase, extra_direct: Vec<String>, extra_dist: Vec<(String, u64)>, judged: bool) -> Case {
  let mut built = real_jbuild(c);
  let mut direct = extra_direct;
  // C03's own observations on the real result
  for p in pending_specs(&built.graph) {
    direct.push(format!("entry {} is still pending after the build", p));
  }
  let json = serde_json::to_string(&built.graph).unwrap_or_else(|e| format!("[serialisation failed: {}]", e));
  if json.contains("[INTERNAL ERROR]") {
    direct.push("the serialised graph reports an internal error".to_string());
  }
  let mut specs = BTreeSet::new();
  graph_spec_strings(&built.graph, &built.log, &mut specs);
  for (s, _) in &built.remote_sets {
    specs.insert(s.clone());
  }
  let mut a = abs_jworld(c, &specs);
  let obs = abs_jgraph(&mut built, &mut a);
  let n_err = built.graph.module_errors().count();
  let n_mod = built.graph.modules().count();
  let n_pk = built.graph.packages.packages_len();
  let restarted = built.log.iter().any(|l| l.cache_setting == "reload" && l.specifier.ends_with("/meta.json"));
  let mut dist = extra_dist;
  dist.push((format!("jsr_packages_{}", n_pk.min(4)), 1));
  dist.push((format!("jsr_error_entries_{}", n_err.min(5)), 1));
  dist.push((format!("jsr_modules_{}", n_mod.min(8)), 1));
  dist.push((format!("jsr_restarted_{}", restarted), 1));
  dist.push((format!("jsr_locker_{}", c.lock_pkg.is_some()), 1));
  dist.push((format!("jsr_lockfile_seeds_{}", c.seed.len().min(3)), 1));
  dist.push((format!("jsr_prefer_cached_{}", c.prefer_cached), 1));
  dist.push((format!("jsr_newest_dependency_date_{}", c.newest_date.is_some()), 1));
  dist.push((format!("jsr_content_loads_{}", built.log.iter().filter(|l| l.cache_setting == "only" && !l.specifier.ends_with("meta.json")).count().min(4)), 1));
  Case {
    input: Sx::L(vec![Sx::A(JSRTAG), a.world_sx.clone(), Sx::L(vec![Sx::b(c.prefer_cached)]), Sx::atoms(c.roots.iter().map(|r| a.it.spec(r)))]),
    obs: if judged { Sx::L(vec![obs, Sx::judge(true)]) } else { Sx::L(vec![obs]) },
    meta: serde_json::json!({"stream": "registry", "world": describe(c), "graph": serde_json::from_str::<serde_json::Value>(&json).unwrap_or(serde_json::Value::Null),
      "loader_calls": built.log.iter().map(|l| format!("{} {} {:?}", l.cache_setting, l.specifier, l.checksum)).collect::<Vec<_>>(),
      "locker_pkg_sets": built.lock_sets, "locker_remote_sets": built.remote_sets}),
    nontrivial: n_pk >= 1 && n_mod >= 2,
    dist,
    direct_violations: direct,
  }
}

/// Registries whose package files are ALSO imported as assets (text / bytes imports, by relative path, by
/// jsr: specifier or by https URL into the registry): outside the registry model, so the model is not run;
/// the REAL loader-call log is judged by the decision procedure of C05_registry_presents_manifest_checksum
/// (every call for a file of a registry package presents the checksum its version manifest gives).
pub fn gen_case_asset_calls(seed: u64, k: u64) -> Case {
  let mut rng = Rng::for_case(seed ^ 0x4a53_5277, k);
  let cfg = JGenCfg { faults: 4, locker: 60, https_imports: 45, asset_imports: 45, asset_abs: 50, manifest_faults: 0, dirty_cache: rng.chance(50), ..Default::default() };
  let mut c = gen_jcase(&mut rng, &cfg);
  c.unstable_text = true;
  c.unstable_bytes = true;
  let mut built = real_jbuild(&c);
  let mut direct = vec![];
  for p in pending_specs(&built.graph) {
    direct.push(format!("entry {} is still pending after the build", p));
  }
  let mut specs = BTreeSet::new();
  graph_spec_strings(&built.graph, &built.log, &mut specs);
  for (s, _) in &built.remote_sets {
    specs.insert(s.clone());
  }
  let mut a = abs_jworld(&c, &specs);
  let calls: Vec<Sx> = built
    .log
    .iter()
    .map(|l| {
      let setting = match l.cache_setting { "use" => 0, "reload" => 1, _ => 2 };
      let ck = l.checksum.as_ref().map(|h| Sx::A(a.chk(h)));
      Sx::L(vec![Sx::A(a.it.spec(&l.specifier)), Sx::A(setting), Sx::opt(ck)])
    })
    .collect();
  let n_asset_calls = built.log.iter().filter(|l| l.asset).count();
  let n_asset_pkg_calls = built.log.iter().filter(|l| l.asset && l.specifier.starts_with(REGISTRY)).count();
  let _ = &mut built;
  let dist = vec![
    (format!("asset_calls_{}", n_asset_calls.min(4)), 1),
    (format!("asset_calls_on_package_files_{}", n_asset_pkg_calls.min(4)), 1),
    (format!("asset_world_locker_{}", c.lock_pkg.is_some()), 1),
  ];
  Case {
    input: Sx::L(vec![Sx::A(31339), a.world_sx.clone(), Sx::L(calls)]),
    obs: Sx::L(vec![Sx::judge(true)]),
    meta: serde_json::json!({"stream": "registry with asset imports of package files: real loader calls judged", "world": describe(&c),
      "loader_calls": built.log.iter().map(|l| format!("{}{} {} {:?}", if l.asset { "asset " } else { "" }, l.cache_setting, l.specifier, l.checksum)).collect::<Vec<_>>()}),
    nontrivial: n_asset_pkg_calls >= 1,
    dist,
    direct_violations: direct,
  }
}

pub fn gen_case(seed: u64, k: u64, f: Flavour) -> Case {
  let mut rng = Rng::for_case(seed ^ 0x4a53_5200, k);
  let c = gen_jcase(&mut rng, &cfg_for(f));
  case_of_judged(&c, vec![], vec![], f == Flavour::Closure || f == Flavour::Versions)
}

pub fn run(cfg: &RunCfg) {
  let n = if cfg.tier == Tier::Quick { 2000 } else { 30000 };
  run_cases(cfg, n, |seed, k| gen_case(seed, k, Flavour::Mixed));
}

pub fn flavour_of(name: &str) -> Flavour {
  match name {
    "faults" => Flavour::Faults,
    "checksums" => Flavour::Checksums,
    "mapping" => Flavour::Mapping,
    "versions" => Flavour::Versions,
    _ => Flavour::Mixed,
  }
}

pub fn dump(flavour: &str, seed: u64, k: u64) {
  let mut rng = Rng::for_case(seed ^ 0x4a53_5200, k);
  let c = if flavour == "lockseed" { lockseed_case() } else { gen_jcase(&mut rng, &cfg_for(flavour_of(flavour))) };
  if std::env::var("DGVERIF_BUILD").is_ok() {
    let case = case_of_judged(&c, vec![], vec![], true);
    println!("{}\n{}", case.input.to_string(), case.obs.to_string());
    return;
  }
  if std::env::var("DGVERIF_MODEL_INPUT").is_ok() {
    let mut a = abs_jworld(&c, &BTreeSet::new());
    let input = Sx::L(vec![Sx::A(JSRTAG), a.world_sx.clone(), Sx::L(vec![Sx::b(c.prefer_cached)]), Sx::atoms(c.roots.iter().map(|r| a.it.spec(r)))]);
    println!("{}", input.to_string());
    for (s, id) in &a.it.specs {
      eprintln!("{} = {}", id, s);
    }
    let _ = &mut a;
    return;
  }
  println!("{}", serde_json::to_string_pretty(&describe(&c)).unwrap());
}

/// C04 on registry worlds: the same world built with an immediately-ready loader, repeatedly, and
/// under random completion orders of the outstanding loads (cache-only probes included) must give
/// the same graph, loader-call multiset and locker calls; the reference build is compared with the
/// (schedule-free) model.
pub fn gen_case_scheduled(seed: u64, k: u64, tier: Tier) -> Case {
  use crate::props::c04::{observe, GatedLoader};
  let mut rng = Rng::for_case(seed ^ 0x4a53_5204, k);
  let cfg = JGenCfg { prefer_cached: 70, faults: 8, locker: 40, ..Default::default() };
  let c = gen_jcase(&mut rng, &cfg);
  let reference = real_jbuild(&c);
  let ref_obs = observe(&reference.graph);
  let canon_log = |log: &[crate::world::LoadCall]| -> Vec<String> {
    let mut v: Vec<String> = log.iter().map(|l| format!("{} {} {:?}", l.cache_setting, l.specifier, l.checksum)).collect();
    v.sort();
    v
  };
  let ref_log = canon_log(&reference.log);
  let mut direct = vec![];
  let schedules = if tier == Tier::Quick { 8 } else { 40 };
  let mut max_out = 0;
  for sidx in 0..schedules {
    let mut sched = Rng::for_case(seed ^ 0x5eed, k * 1000 + sidx);
    let mut inner = crate::world::WorldLoader::new(&c.world);
    inner.max_redirects = c.max_redirects;
    inner.only_means_uncached = true;
    let loader = GatedLoader::new(inner);
    let mut locker = new_locker(&c);
    let mut graph = deno_graph::ModuleGraph::new(deno_graph::GraphKind::All);
    fill_seeds(&mut graph, &c);
    let roots: Vec<deno_graph::ModuleSpecifier> = c.roots.iter().map(|r| deno_graph::ModuleSpecifier::parse(r).unwrap()).collect();
    let exec = crate::world::InlineExecutor;
    let done = {
      let options = deno_graph::BuildOptions {
        executor: &exec,
        prefer_cached_jsr_versions: c.prefer_cached,
        jsr_version_resolver: std::borrow::Cow::Owned(crate::jsrworld::version_resolver(&c)),
        locker: locker.as_mut().map(|l| l as &mut dyn deno_graph::source::Locker),
        ..Default::default()
      };
      loader.drive(graph.build(roots, vec![], &loader, options), &mut sched)
    };
    match done {
      None => {
        direct.push("build did not finish under a completion schedule (poll budget exhausted)".to_string());
        break;
      }
      Some(mo) => {
        max_out = max_out.max(mo);
        let o = observe(&graph);
        if o != ref_obs {
          direct.push(format!("completion schedule {} gives a different graph than the immediately-ready loader", sidx));
          break;
        }
        let log = canon_log(&loader.into_log());
        if log != ref_log {
          direct.push(format!("completion schedule {} issues different loader calls than the immediately-ready loader", sidx));
          break;
        }
        let (ls, rs) = match locker {
          Some(l) => (l.pkg_sets, l.sets),
          None => (vec![], vec![]),
        };
        let sorted = |mut v: Vec<(String, String)>| {
          v.sort();
          v
        };
        if sorted(ls) != sorted(reference.lock_sets.clone()) || sorted(rs) != sorted(reference.remote_sets.clone()) {
          direct.push(format!("completion schedule {} hands different checksums to the lockfile", sidx));
          break;
        }
      }
    }
  }
  case_of(&c, direct, vec![(format!("jsr_max_outstanding_{:02}", max_out.min(12)), 1)])
}

/// C13 (b): a registry published once with and once without embedded module information gives the
/// same graph - modules, dependencies, redirects, errors - whenever the embedded information was
/// produced by this analyser from those sources (and the file cache holds nothing else).
pub fn gen_case_modinfo(seed: u64, k: u64) -> Case {
  let mut rng = Rng::for_case(seed ^ 0x4a53_5213, k);
  // every third world also has text / bytes imports of package files (with the unstable options on or
  // off): those are outside the registry model and are decided by the two real builds alone
  let with_assets = k % 3 == 2;
  let cfg = JGenCfg { modinfo: 100, partial_info: 0, stale_info: 0, dirty_cache: false, manifest_faults: 0, faults: 0, locker: 0, weird_exports: 3, stale_meta: 5,
    asset_imports: if with_assets { 40 } else { 0 }, json_attr: if with_assets { 12 } else { 0 }, ..Default::default() };
  let mut c = gen_jcase(&mut rng, &cfg);
  if with_assets {
    c.unstable_text = rng.chance(80);
    c.unstable_bytes = rng.chance(80);
  }
  // the same registry without embedded module graphs
  let mut plain = c.clone();
  let mut stripped = 0;
  for (url, e) in plain.world.entries.iter_mut().chain(plain.world.only_entries.iter_mut()).chain(plain.world.reload_entries.iter_mut()) {
    if !url.ends_with("_meta.json") {
      continue;
    }
    if let crate::world::Entry::Module { raw: Some(bytes), .. } = e {
      if let Ok(serde_json::Value::Object(mut doc)) = serde_json::from_slice::<serde_json::Value>(bytes) {
        if doc.remove("moduleGraph2").is_some() | doc.remove("moduleGraph1").is_some() {
          stripped += 1;
        }
        *bytes = serde_json::to_vec(&serde_json::Value::Object(doc)).unwrap();
      }
    }
  }
  let with_info = real_jbuild(&c);
  let without = real_jbuild(&plain);
  let mut direct = vec![];
  let a = serde_json::to_value(&with_info.graph).unwrap();
  let b = serde_json::to_value(&without.graph).unwrap();
  if a != b {
    // name the first differing module / redirect / package entry
    let describe = |v: &serde_json::Value| -> std::collections::BTreeMap<String, String> {
      let mut m = std::collections::BTreeMap::new();
      if let Some(ms) = v.get("modules").and_then(|x| x.as_array()) {
        for x in ms {
          m.insert(format!("module {}", x.get("specifier").and_then(|s| s.as_str()).unwrap_or("?")), x.to_string());
        }
      }
      for key in ["redirects", "packages", "roots"] {
        m.insert(key.to_string(), v.get(key).map(|x| x.to_string()).unwrap_or_default());
      }
      m
    };
    let (da, db) = (describe(&a), describe(&b));
    let mut what = String::new();
    for key in da.keys().chain(db.keys()) {
      if da.get(key) != db.get(key) {
        what = format!("{}: with embedded info {} | parsed from source {}", key, da.get(key).map(|s| &s[..s.len().min(300)]).unwrap_or("<absent>"), db.get(key).map(|s| &s[..s.len().min(300)]).unwrap_or("<absent>"));
        break;
      }
    }
    direct.push(format!("the graph built from embedded module information differs from the graph built by parsing the same sources: {}", what));
  }
  let used_info = with_info.log.iter().filter(|l| l.cache_setting == "only" && !l.specifier.ends_with("meta.json")).count();
  let dist = vec![(format!("c13b_manifests_with_info_{}", stripped.min(6)), 1), (format!("c13b_probed_files_{}", used_info.min(8)), 1), (format!("c13b_asset_imports_{}", with_assets), 1)];
  if with_assets {
    let n_ext = with_info.graph.modules().filter(|m| matches!(m, deno_graph::Module::External(_))).count();
    let mut dist = dist;
    dist.push((format!("c13b_asset_modules_{}", n_ext.min(4)), 1));
    return Case {
      input: Sx::L(vec![Sx::A(31338)]),
      obs: Sx::L(vec![]),
      meta: serde_json::json!({"stream": "registry with/without embedded module info, asset imports (relational only)", "world": describe(&c),
        "unstable_text_imports": c.unstable_text, "unstable_bytes_imports": c.unstable_bytes, "graph_with_info": a, "graph_parsed": b}),
      nontrivial: used_info >= 1 && with_info.graph.modules().count() >= 2,
      dist,
      direct_violations: direct,
    };
  }
  let mut case = case_of(&c, direct, dist);
  case.nontrivial = used_info >= 1 && with_info.graph.modules().count() >= 2;
  case
}
