//! C16: symbol tables are well-formed trees; export resolution follows ES rules.
//!
//! One case = one multi-module program (a spec file of /repo/tests/specs or a
//! generated program). The REAL deno_graph builds the graph, RootSymbol analyses
//! every module, and through the public API the harness dumps
//!   * the symbol table of every module (judged by the extracted, proved-sound
//!     checker wf_symtabb),
//!   * `export * from` specifiers with ModuleGraph::resolve_dependency's answer and
//!     RootSymbol::module_from_specifier as a table (inputs of the export model),
//!   * ModuleInfoRef::exports() of every module (compared with the model's
//!     exports_of, and its name set judged by names_okb),
//!   * go_to_definitions_or_unresolveds of every symbol (judged by goto_okb),
//! all under a watchdog thread: no progress for WATCHDOG_SECS is the direct
//! violation "did not terminate".
use crate::common::*;
use crate::props::c16gen::*;
use crate::rng::Rng;
use crate::sexp::Sx;
use crate::world::*;
use deno_graph::ast::CapturingModuleAnalyzer;
use deno_graph::source::*;
use deno_graph::symbols::*;
use deno_graph::*;
use std::collections::BTreeMap;
use std::collections::HashMap;
use std::collections::HashSet;
use std::sync::mpsc;
use std::time::Duration;

const WATCHDOG_SECS: u64 = 5;
const BUILD_SECS: u64 = 60;

// ------------------------------------------------------------------ programs

#[derive(Clone, Debug)]
pub struct SrcFile {
  pub spec: String,
  pub content: Vec<u8>,
  pub headers: Vec<(String, String)>,
}

#[derive(Clone, Debug, Default)]
pub struct Prog {
  pub files: Vec<SrcFile>,
  pub roots: Vec<String>,
  pub bytes_imports: bool,
  pub text_imports: bool,
  pub css_imports: bool,
  pub descr: String,
}

fn spec_url(specifier: &str) -> Option<String> {
  let s = specifier.trim();
  if s.starts_with("cache:") {
    return None;
  }
  let u = if !s.starts_with("http:") && !s.starts_with("https:") && !s.starts_with("file:") {
    format!("file:///{}", s)
  } else {
    s.to_string()
  };
  ModuleSpecifier::parse(&u).ok().map(|u| u.to_string())
}

/// tests/specs file format: optional `~~ {options} ~~`, then `# specifier` headers
/// followed by the file's text (`# spec <= path` reads an external resource,
/// `HEADERS: {json}` sets response headers); `# output` etc. are not sources.
pub fn parse_spec_file(path: &std::path::Path) -> Option<Prog> {
  let text = std::fs::read_to_string(path).ok()?;
  let mut text = text.as_str();
  let mut prog = Prog { descr: path.display().to_string(), ..Default::default() };
  let mut entrypoint: Option<String> = None;
  if text.starts_with("~~ ") {
    let end = text.find(" ~~\n")?;
    if let Ok(v) = serde_json::from_str::<serde_json::Value>(&text[3..end]) {
      entrypoint = v.get("entrypoint").and_then(|e| e.as_str()).map(|s| s.to_string());
      prog.bytes_imports = v.get("unstableBytesImports").and_then(|b| b.as_bool()).unwrap_or(false);
      prog.text_imports = v.get("unstableTextImports").and_then(|b| b.as_bool()).unwrap_or(false);
      prog.css_imports = v.get("unstableCssImports").and_then(|b| b.as_bool()).unwrap_or(false);
    }
    text = &text[end + 4..];
  }
  struct Cur {
    name: String,
    content: String,
    external: Option<Vec<u8>>,
    headers: Vec<(String, String)>,
  }
  let mut files: Vec<Cur> = vec![];
  let mut cur: Option<Cur> = None;
  for line in text.split('\n') {
    if let Some(spec_line) = line.strip_prefix("# ") {
      if let Some(c) = cur.take() {
        files.push(c);
      }
      if let Some((s, res)) = spec_line.split_once("<=") {
        let p = path.parent().unwrap().join(res.trim());
        cur = Some(Cur { name: s.trim().to_string(), content: String::new(), external: std::fs::read(p).ok(), headers: vec![] });
      } else {
        cur = Some(Cur { name: spec_line.to_string(), content: String::new(), external: None, headers: vec![] });
      }
    } else if let Some(h) = line.strip_prefix("HEADERS: ") {
      if let (Some(c), Ok(serde_json::Value::Object(m))) = (cur.as_mut(), serde_json::from_str::<serde_json::Value>(h)) {
        for (k, v) in m {
          if let Some(v) = v.as_str() {
            c.headers.push((k, v.to_string()));
          }
        }
      }
    } else if let Some(c) = cur.as_mut() {
      if !c.content.is_empty() {
        c.content.push('\n');
      }
      c.content.push_str(line);
    }
  }
  if let Some(c) = cur.take() {
    files.push(c);
  }
  let has_mod_js = files.iter().any(|f| f.name == "mod.js");
  for f in files {
    if f.name == "output" || f.name == "workspace_members" || f.name == "lockfile_jsr_packages" {
      continue;
    }
    let Some(url) = spec_url(&f.name) else { continue };
    let content = match f.external {
      Some(b) => b,
      None => f.content.into_bytes(),
    };
    prog.files.push(SrcFile { spec: url, content, headers: f.headers });
  }
  fill_jsr_manifests(&mut prog);
  let entry = match entrypoint {
    Some(e) => e,
    None if has_mod_js && path.to_string_lossy().contains("/symbols/") => "file:///mod.js".to_string(),
    None => "file:///mod.ts".to_string(),
  };
  prog.roots.push(entry);
  // every script-like source file is also a root, so that every module is analysed
  for f in &prog.files {
    let p = f.spec.split(['?', '#']).next().unwrap_or("");
    let script = [".ts", ".tsx", ".js", ".jsx", ".mts", ".mjs", ".cts", ".cjs"].iter().any(|e| p.ends_with(e));
    if script && !f.headers.iter().any(|(k, _)| k == "location") && !prog.roots.contains(&f.spec) {
      prog.roots.push(f.spec.clone());
    }
  }
  Some(prog)
}

/// the spec runner's fill_jsr_meta_files_with_checksums
fn fill_jsr_manifests(prog: &mut Prog) {
  let mut by_pkg: BTreeMap<String, (String, BTreeMap<String, serde_json::Value>)> = BTreeMap::new();
  for f in &prog.files {
    let Ok(url) = ModuleSpecifier::parse(&f.spec) else { continue };
    if let Some(nv) = recommended_registry_package_url_to_nv(&DEFAULT_JSR_URL, &url) {
      let base = recommended_registry_package_url(&DEFAULT_JSR_URL, &nv);
      let base_s = base.to_string();
      let Some(rel) = f.spec.strip_prefix(base_s.strip_suffix('/').unwrap_or(&base_s)) else { continue };
      let Ok(meta) = base.join(&format!("../{}_meta.json", nv.version)) else { continue };
      by_pkg.entry(nv.to_string()).or_insert_with(|| (meta.to_string(), BTreeMap::new())).1.insert(
        rel.to_string(),
        serde_json::json!({"size": f.content.len(), "checksum": format!("sha256-{}", LoaderChecksum::r#gen(&f.content))}),
      );
    }
  }
  for (_nv, (meta_url, sums)) in by_pkg {
    if let Some(mf) = prog.files.iter_mut().find(|f| f.spec == meta_url) {
      if let Ok(serde_json::Value::Object(mut v)) = serde_json::from_slice::<serde_json::Value>(&mf.content) {
        let manifest = v.entry("manifest".to_string()).or_insert_with(|| serde_json::Value::Object(Default::default()));
        if let Some(m) = manifest.as_object_mut() {
          for (file, sum) in sums {
            if !m.contains_key(&file) {
              m.insert(file, sum);
            }
          }
        }
        mf.content = serde_json::to_vec(&serde_json::Value::Object(v)).unwrap();
      }
    }
  }
}

pub fn corpus_files() -> Vec<std::path::PathBuf> {
  fn walk(d: &std::path::Path, out: &mut Vec<std::path::PathBuf>) {
    if let Ok(rd) = std::fs::read_dir(d) {
      for e in rd.flatten() {
        let p = e.path();
        if p.is_dir() {
          walk(&p, out);
        } else if p.extension().map(|e| e == "txt").unwrap_or(false) {
          out.push(p);
        }
      }
    }
  }
  let mut out = vec![];
  walk(std::path::Path::new("/repo/tests/specs/symbols"), &mut out);
  walk(std::path::Path::new("/repo/tests/specs/graph"), &mut out);
  out.sort();
  out
}

fn prog_of_gen(g: &GenProg) -> Prog {
  let mut files: Vec<SrcFile> =
    g.files.iter().map(|f| SrcFile { spec: f.spec.clone(), content: f.text.clone().into_bytes(), headers: vec![] }).collect();
  files.push(SrcFile {
    spec: "file:///p/redir.ts".into(),
    content: vec![],
    headers: vec![("location".into(), g.roots[0].clone())],
  });
  Prog { files, roots: g.roots.clone(), descr: if g.adversarial { "generated-adversarial".into() } else { "generated".into() }, ..Default::default() }
}

// ------------------------------------------------------------------ dump of the real analysis

#[derive(Debug, Default, Clone)]
pub struct DeclDump {
  name: Option<String>,
  start: i64,
  end: i64,
  kind: u64,
  /// Target / QualifiedTarget: the local symbol the swc id maps to
  target: Option<u64>,
  /// FileRef: ModuleGraph::resolve_dependency(specifier, module, prefer_types = true)
  file: Option<String>,
  /// FileRef(Name): the imported name
  import: Option<String>,
}

#[derive(Debug, Default, Clone)]
pub struct SymDump {
  id: u64,
  parent: Option<u64>,
  name: Option<String>,
  decls: Vec<DeclDump>,
  children: Vec<u64>,
  members: Vec<u64>,
  exports: Vec<(String, u64)>,
}

#[derive(Debug, Clone)]
pub enum GotoDump {
  Def { module: String, sym: u64, decl: Option<usize>, star: bool },
  Unres { module: String, kind: u64 },
}

#[derive(Debug, Default, Clone)]
pub struct ModDump {
  key: String,
  stars: Vec<(String, Option<String>)>,
  text_len: u64,
  root: u64,
  syms: Vec<SymDump>,
  resolved: Vec<(String, Vec<(String, String)>, String, u64)>,
  unresolved: Vec<(String, String)>,
  gotos: Vec<(u64, Vec<GotoDump>)>,
  /// input classes of the known findings, computed from the module's source (AST)
  hint_dotted: Vec<String>,
  hint_conflict: Vec<String>,
}

#[derive(Debug, Default, Clone)]
pub struct Dump {
  mods: Vec<ModDump>,
  s2m: Vec<(String, String)>,
  graph_modules: usize,
  internal: Vec<String>,
  /// go-to-definition was not run in-process because the child process that ran it died
  goto_skipped: bool,
  /// input class of F-C16c (circular import alias), computed from the sources
  alias_cycle: bool,
}

enum Msg {
  Progress,
  Done(Box<Dump>),
  Panic(String),
}

fn sid(id: SymbolId) -> u64 {
  format!("{:?}", id).parse::<u64>().unwrap()
}

fn dump_symbol(graph: &ModuleGraph, module: ModuleInfoRef<'_>, s: &Symbol) -> SymDump {
  let start = module.text_info().range().start.as_byte_pos().0 as i64;
  SymDump {
    id: sid(s.symbol_id()),
    parent: s.parent_id().map(sid),
    name: s.maybe_name().map(|n| n.to_string()),
    decls: s
      .decls()
      .iter()
      .map(|d| DeclDump {
        target: match &d.kind {
          SymbolDeclKind::Target(id) | SymbolDeclKind::QualifiedTarget(id, _) => {
            module.esm().and_then(|e| e.symbol_id_from_swc(id)).and_then(|i| module.symbol(i)).map(|x| sid(x.symbol_id()))
          }
          _ => None,
        },
        file: match &d.kind {
          SymbolDeclKind::FileRef(fd) => graph.resolve_dependency(&fd.specifier, module.specifier(), true).map(|u| u.to_string()),
          _ => None,
        },
        import: match &d.kind {
          SymbolDeclKind::FileRef(fd) => fd.name.maybe_name().map(|n| n.to_string()),
          _ => None,
        },
        name: d.maybe_name().map(|n| n.to_string()),
        start: d.range.start.as_byte_pos().0 as i64 - start,
        end: d.range.end.as_byte_pos().0 as i64 - start,
        kind: match &d.kind {
          SymbolDeclKind::Definition(_) => 0,
          SymbolDeclKind::Target(_) => 1,
          SymbolDeclKind::QualifiedTarget(..) => 2,
          SymbolDeclKind::FileRef(fd) => match fd.name {
            FileDepName::Name(_) => 3,
            FileDepName::Star => 4,
          },
        },
      })
      .collect(),
    children: s.child_ids().map(sid).collect(),
    members: s.members().iter().map(|i| sid(*i)).collect(),
    exports: s.exports().iter().map(|(n, i)| (n.clone(), sid(*i))).collect(),
  }
}

fn item_dump(item: &ResolvedExportOrReExportAllPath<'_>) -> (Vec<(String, String)>, String, u64) {
  let mut path = vec![];
  let mut cur = item;
  loop {
    match cur {
      ResolvedExportOrReExportAllPath::Export(e) => {
        return (path, e.module.specifier().to_string(), sid(e.symbol_id));
      }
      ResolvedExportOrReExportAllPath::ReExportAllPath(p) => {
        path.push((p.referrer_module.specifier().to_string(), p.specifier.to_string()));
        cur = &p.next;
      }
    }
  }
}

fn analyse(prog: &Prog, tx: &mpsc::Sender<Msg>, skip_goto: bool, child: bool) -> Dump {
  let mut world = World::default();
  for f in &prog.files {
    if let Some((_, loc)) = f.headers.iter().find(|(k, _)| k == "location") {
      let to = if loc.starts_with("./") || loc.starts_with("../") {
        ModuleSpecifier::parse(&f.spec).ok().and_then(|u| u.join(loc).ok()).map(|u| u.to_string())
      } else {
        ModuleSpecifier::parse(loc).ok().map(|u| u.to_string())
      };
      if let Some(to) = to {
        world.entries.insert(f.spec.clone(), Entry::Redirect(to));
        continue;
      }
    }
    world.entries.insert(
      f.spec.clone(),
      Entry::Module { src: ModSrc::default(), raw: Some(f.content.clone()), headers: if f.headers.is_empty() { None } else { Some(f.headers.clone()) } },
    );
  }
  let loader = WorldLoader::new(&world);
  let analyzer = CapturingModuleAnalyzer::default();
  let mut graph = ModuleGraph::new(GraphKind::All);
  let roots: Vec<ModuleSpecifier> = prog.roots.iter().filter_map(|r| ModuleSpecifier::parse(r).ok()).collect();
  let exec = InlineExecutor;
  futures::executor::block_on(graph.build(
    roots,
    vec![],
    &loader,
    BuildOptions {
      module_analyzer: &analyzer,
      executor: &exec,
      unstable_bytes_imports: prog.bytes_imports,
      unstable_text_imports: prog.text_imports,
      unstable_css_imports: prog.css_imports,
      ..Default::default()
    },
  ));
  let _ = tx.send(Msg::Progress);
  let root = RootSymbol::new(&graph, &analyzer);
  let mut dump = Dump::default();
  let mut specs: Vec<ModuleSpecifier> = graph.modules().map(|m| m.specifier().clone()).collect();
  specs.sort();
  dump.graph_modules = specs.len();
  let mut mods: Vec<ModuleInfoRef<'_>> = vec![];
  let mut keys: HashSet<String> = HashSet::new();
  let mut asked: HashSet<String> = HashSet::new();
  let mut queue: Vec<ModuleSpecifier> = specs.clone();
  // module_from_specifier as a table, for every graph module and every
  // specifier that resolve_dependency returns for an `export *`
  while let Some(s) = queue.pop() {
    if !asked.insert(s.to_string()) {
      continue;
    }
    let Some(m) = root.module_from_specifier(&s) else { continue };
    dump.s2m.push((s.to_string(), m.specifier().to_string()));
    if keys.insert(m.specifier().to_string()) {
      mods.push(m);
      if let Some(nodes) = m.re_export_all_nodes() {
        for n in nodes {
          if let Some(text) = n.src.value.as_str() {
            if let Some(t) = graph.resolve_dependency(text, m.specifier(), true) {
              queue.push(t.clone());
            }
          }
        }
      }
    }
  }
  dump.s2m.sort();
  mods.sort_by(|a, b| a.specifier().cmp(b.specifier()));
  let _ = tx.send(Msg::Progress);
  for m in &mods {
    let m = *m;
    let mut md = ModDump { key: m.specifier().to_string(), ..Default::default() };
    if let Some(nodes) = m.re_export_all_nodes() {
      for n in nodes {
        if let Some(text) = n.src.value.as_str() {
          let t = graph.resolve_dependency(text, m.specifier(), true).map(|t| t.to_string());
          md.stars.push((text.to_string(), t));
        }
      }
    }
    if let Some(esm) = m.esm() {
      let (dotted, conflict) = source_hints(esm.source());
      md.hint_dotted = dotted;
      md.hint_conflict = conflict;
    }
    let r = m.text_info().range();
    md.text_len = (r.end.as_byte_pos().0 - r.start.as_byte_pos().0) as u64;
    if md.text_len as usize != m.text().len() {
      dump.internal.push(format!("{}: text_info range length {} != text length {}", md.key, md.text_len, m.text().len()));
    }
    md.root = sid(m.module_symbol().symbol_id());
    for s in m.symbols() {
      md.syms.push(dump_symbol(&graph, m, s));
      if m.symbol(s.symbol_id()).map(|x| !std::ptr::eq(x, s)).unwrap_or(true) {
        dump.internal.push(format!("{}: symbol({:?}) does not return the symbol listed by symbols()", md.key, s.symbol_id()));
      }
    }
    // (a) the real export resolution
    let ex = m.exports(&root);
    for (name, item) in &ex.resolved {
      let (path, module, sym) = item_dump(item);
      md.resolved.push((name.clone(), path, module, sym));
    }
    for u in &ex.unresolved_specifiers {
      md.unresolved.push((u.referrer.specifier().to_string(), u.specifier.to_string()));
    }
    dump.mods.push(md);
  }
  let _ = tx.send(Msg::Progress);
  if child {
    println!("TABLES");
  }
  dump.goto_skipped = skip_goto;
  if skip_goto {
    return dump;
  }
  // (c) go-to-definition from every symbol
  for (mi, m) in mods.iter().enumerate() {
    let m = *m;
    let mut gotos = vec![];
    for s in m.symbols() {
      let mut rs = vec![];
      for d in root.go_to_definitions_or_unresolveds(m, s) {
        match d {
          DefinitionOrUnresolved::Definition(def) => {
            let idx = def.symbol.decls().iter().position(|x| std::ptr::eq(x, def.symbol_decl));
            rs.push(GotoDump::Def {
              module: def.module.specifier().to_string(),
              sym: sid(def.symbol.symbol_id()),
              decl: idx,
              star: matches!(def.kind, DefinitionKind::ExportStar(_)),
            });
          }
          DefinitionOrUnresolved::Unresolved(u) => {
            rs.push(GotoDump::Unres {
              module: u.module.specifier().to_string(),
              // DefinitionUnresolvedKind is not re-exported: classify by its Debug form
              kind: {
                let k = format!("{:?}", u.kind);
                if k.starts_with("Id(") {
                  0
                } else if k.starts_with("Specifier(") {
                  1
                } else {
                  2
                }
              },
            });
          }
        }
      }
      gotos.push((sid(s.symbol_id()), rs));
    }
    dump.mods[mi].gotos = gotos;
    let _ = tx.send(Msg::Progress);
  }
  dump
}


// ------------------------------------------------------------------ input classes of the known findings

use deno_ast::swc::ast as sw;

fn decl_names(d: &sw::Decl, out: &mut Vec<String>) {
  match d {
    sw::Decl::Class(n) => out.push(n.ident.sym.to_string()),
    sw::Decl::Fn(n) => out.push(n.ident.sym.to_string()),
    sw::Decl::Var(n) => {
      for dd in &n.decls {
        for id in deno_ast::swc::utils::find_pat_ids::<_, sw::Ident>(&dd.name) {
          out.push(id.sym.to_string());
        }
      }
    }
    sw::Decl::Using(n) => {
      for dd in &n.decls {
        for id in deno_ast::swc::utils::find_pat_ids::<_, sw::Ident>(&dd.name) {
          out.push(id.sym.to_string());
        }
      }
    }
    sw::Decl::TsInterface(n) => out.push(n.id.sym.to_string()),
    sw::Decl::TsTypeAlias(n) => out.push(n.id.sym.to_string()),
    sw::Decl::TsEnum(n) => out.push(n.id.sym.to_string()),
    sw::Decl::TsModule(n) => {
      if let sw::TsModuleName::Ident(i) = &n.id {
        out.push(i.sym.to_string());
      }
    }
  }
}

fn export_name(n: &sw::ModuleExportName) -> String {
  match n {
    sw::ModuleExportName::Ident(i) => i.sym.to_string(),
    sw::ModuleExportName::Str(s) => s.value.to_string_lossy().into_owned(),
  }
}

/// One scope = the items of a module or of a namespace block.
/// dotted: non-first segments of `namespace A.S1...Sk { body }` that are declared again in
///         the scope swc's resolver gives to the segments (another segment of the same
///         name or a declaration at the top level of `body`), and S1 when the same scope
///         assigns the expando property `A.S1 = ..` (it lands on the segment's symbol,
///         whose declarations report the OUTER name);
/// conflict: import / import-equals bindings also declared in the same scope; "default"
///         when the scope has several default-export statements.
fn scan_scope(items: &[sw::ModuleItem], dotted: &mut Vec<String>, conflict: &mut Vec<String>, top: bool) -> Vec<String> {
  let mut declared: Vec<String> = vec![];
  let mut imports: Vec<String> = vec![];
  let mut defaults = 0usize;
  let mut modules: Vec<&sw::TsModuleDecl> = vec![];
  // expando assignments `X.N = ...` of this scope: (X, N)
  let mut expandos: Vec<(String, String)> = vec![];
  for item in items {
    match item {
      sw::ModuleItem::Stmt(sw::Stmt::Decl(d)) => {
        decl_names(d, &mut declared);
        if let sw::Decl::TsModule(m) = d {
          modules.push(m);
        }
      }
      sw::ModuleItem::Stmt(sw::Stmt::Expr(e)) => {
        if let sw::Expr::Assign(a) = &*e.expr {
          if let Some(x) = ExpandoPropertyRef::maybe_new(a) {
            expandos.push((x.obj_ident().sym.to_string(), x.prop_name().to_string()));
          }
        }
      }
      sw::ModuleItem::Stmt(_) => {}
      sw::ModuleItem::ModuleDecl(md) => match md {
        sw::ModuleDecl::Import(i) => {
          for sp in &i.specifiers {
            match sp {
              sw::ImportSpecifier::Named(n) => imports.push(n.local.sym.to_string()),
              sw::ImportSpecifier::Default(n) => imports.push(n.local.sym.to_string()),
              sw::ImportSpecifier::Namespace(n) => imports.push(n.local.sym.to_string()),
            }
          }
        }
        sw::ModuleDecl::ExportDecl(e) => {
          decl_names(&e.decl, &mut declared);
          if let sw::Decl::TsModule(m) = &e.decl {
            modules.push(m);
          }
        }
        sw::ModuleDecl::ExportNamed(n) => {
          for sp in &n.specifiers {
            if let sw::ExportSpecifier::Named(named) = sp {
              let exported = named.exported.as_ref().map(export_name).unwrap_or_else(|| export_name(&named.orig));
              if exported == "default" {
                defaults += 1;
              }
            }
          }
        }
        sw::ModuleDecl::ExportDefaultDecl(d) => {
          defaults += 1;
          let id = match &d.decl {
            sw::DefaultDecl::Class(c) => c.ident.as_ref(),
            sw::DefaultDecl::Fn(f) => f.ident.as_ref(),
            sw::DefaultDecl::TsInterfaceDecl(i) => Some(&i.id),
          };
          if let Some(id) = id {
            declared.push(id.sym.to_string());
          }
        }
        sw::ModuleDecl::ExportDefaultExpr(_) => defaults += 1,
        sw::ModuleDecl::TsExportAssignment(_) => defaults += 1,
        sw::ModuleDecl::TsImportEquals(i) => imports.push(i.id.sym.to_string()),
        sw::ModuleDecl::ExportAll(_) | sw::ModuleDecl::TsNamespaceExport(_) => {}
      },
    }
  }
  for i in &imports {
    if declared.contains(i) && !conflict.contains(i) {
      conflict.push(i.clone());
    }
  }
  if top && defaults >= 2 && !conflict.contains(&"default".to_string()) {
    conflict.push("default".to_string());
  }
  for m in modules {
    let Some(mut body) = m.body.as_ref() else { continue };
    let mut segments: Vec<String> = vec![];
    let block = loop {
      match body {
        sw::TsNamespaceBody::TsModuleBlock(b) => break b,
        sw::TsNamespaceBody::TsNamespaceDecl(d) => {
          segments.push(d.id.sym.to_string());
          body = &d.body;
        }
      }
    };
    let inner_declared = scan_scope(&block.body, dotted, conflict, false);
    for (i, sgm) in segments.iter().enumerate() {
      let dup = segments.iter().enumerate().any(|(j, o)| j != i && o == sgm);
      if (dup || inner_declared.contains(sgm)) && !dotted.contains(sgm) {
        dotted.push(sgm.clone());
      }
    }
    // the first segment is exported by the head symbol: an expando property `Head.Seg = ..`
    // on a function merged with the namespace lands on the segment's symbol
    if let (sw::TsModuleName::Ident(head), Some(first)) = (&m.id, segments.first()) {
      if expandos.iter().any(|(x, n)| x == &head.sym.to_string() && n == first) && !dotted.contains(first) {
        dotted.push(first.clone());
      }
    }
  }
  declared
}

fn source_hints(src: &deno_ast::ParsedSource) -> (Vec<String>, Vec<String>) {
  let mut dotted = vec![];
  let mut conflict = vec![];
  let program = src.program();
  match program.as_ref() {
    sw::Program::Module(m) => {
      scan_scope(&m.body, &mut dotted, &mut conflict, true);
    }
    sw::Program::Script(sc) => {
      let items: Vec<sw::ModuleItem> = sc.body.iter().cloned().map(sw::ModuleItem::Stmt).collect();
      scan_scope(&items, &mut dotted, &mut conflict, true);
    }
  }
  (dotted, conflict)
}

/// Input class of F-C16c: a name-level dependency cycle through an `import X = A.B`
/// alias (TypeScript rejects such programs: circular definition of import alias).
/// Edges between NAMES, over the whole program: import-equals binding -> every
/// identifier of its entity name; import binding -> imported name; export alias ->
/// original name; `default` -> the identifier of `export default x` / `export = x`.
pub fn alias_cycle_hint(prog: &Prog) -> bool {
  let mut edges: HashMap<String, Vec<String>> = HashMap::new();
  let mut aliases: Vec<String> = vec![];
  fn entity(e: &sw::TsEntityName, out: &mut Vec<String>) {
    match e {
      sw::TsEntityName::Ident(i) => out.push(i.sym.to_string()),
      sw::TsEntityName::TsQualifiedName(q) => {
        entity(&q.left, out);
        out.push(q.right.sym.to_string());
      }
    }
  }
  fn scan(items: &[sw::ModuleItem], edges: &mut HashMap<String, Vec<String>>, aliases: &mut Vec<String>) {
    for item in items {
      match item {
        sw::ModuleItem::Stmt(sw::Stmt::Decl(sw::Decl::TsModule(m))) => scan_ns(m, edges, aliases),
        sw::ModuleItem::Stmt(_) => {}
        sw::ModuleItem::ModuleDecl(md) => match md {
          sw::ModuleDecl::Import(i) => {
            for sp in &i.specifiers {
              match sp {
                sw::ImportSpecifier::Named(n) => {
                  let imported = n.imported.as_ref().map(export_name).unwrap_or_else(|| n.local.sym.to_string());
                  edges.entry(n.local.sym.to_string()).or_default().push(imported);
                }
                sw::ImportSpecifier::Default(n) => edges.entry(n.local.sym.to_string()).or_default().push("default".into()),
                sw::ImportSpecifier::Namespace(_) => {}
              }
            }
          }
          sw::ModuleDecl::ExportDecl(e) => {
            if let sw::Decl::TsModule(m) = &e.decl {
              scan_ns(m, edges, aliases);
            }
          }
          sw::ModuleDecl::ExportNamed(n) => {
            for sp in &n.specifiers {
              if let sw::ExportSpecifier::Named(named) = sp {
                let orig = export_name(&named.orig);
                let exported = named.exported.as_ref().map(export_name).unwrap_or_else(|| orig.clone());
                if exported != orig {
                  edges.entry(exported).or_default().push(orig);
                }
              }
            }
          }
          sw::ModuleDecl::ExportDefaultExpr(e) => {
            if let sw::Expr::Ident(i) = &*e.expr {
              edges.entry("default".into()).or_default().push(i.sym.to_string());
            }
          }
          sw::ModuleDecl::TsExportAssignment(e) => {
            if let sw::Expr::Ident(i) = &*e.expr {
              edges.entry("default".into()).or_default().push(i.sym.to_string());
            }
          }
          sw::ModuleDecl::TsImportEquals(i) => match &i.module_ref {
            sw::TsModuleRef::TsEntityName(e) => {
              let mut parts = vec![];
              entity(e, &mut parts);
              aliases.push(i.id.sym.to_string());
              edges.entry(i.id.sym.to_string()).or_default().extend(parts);
            }
            sw::TsModuleRef::TsExternalModuleRef(_) => {
              edges.entry(i.id.sym.to_string()).or_default().push("default".into());
            }
          },
          _ => {}
        },
      }
    }
  }
  fn scan_ns(m: &sw::TsModuleDecl, edges: &mut HashMap<String, Vec<String>>, aliases: &mut Vec<String>) {
    let Some(mut body) = m.body.as_ref() else { return };
    loop {
      match body {
        sw::TsNamespaceBody::TsModuleBlock(b) => {
          scan(&b.body, edges, aliases);
          return;
        }
        sw::TsNamespaceBody::TsNamespaceDecl(d) => body = &d.body,
      }
    }
  }
  for f in &prog.files {
    let Ok(url) = ModuleSpecifier::parse(&f.spec) else { continue };
    let Ok(text) = String::from_utf8(f.content.clone()) else { continue };
    let media_type = deno_ast::MediaType::from_specifier(&url);
    let Ok(src) = deno_ast::parse_program(deno_ast::ParseParams {
      specifier: url,
      text: text.into(),
      media_type,
      capture_tokens: false,
      scope_analysis: false,
      maybe_syntax: None,
    }) else {
      continue;
    };
    let program = src.program();
    match program.as_ref() {
      sw::Program::Module(m) => scan(&m.body, &mut edges, &mut aliases),
      sw::Program::Script(sc) => {
        let items: Vec<sw::ModuleItem> = sc.body.iter().cloned().map(sw::ModuleItem::Stmt).collect();
        scan(&items, &mut edges, &mut aliases);
      }
    }
  }
  for a in &aliases {
    // is a reachable from a ?
    let mut seen: HashSet<String> = HashSet::new();
    let mut stack: Vec<String> = edges.get(a).cloned().unwrap_or_default();
    while let Some(x) = stack.pop() {
      if &x == a {
        return true;
      }
      if seen.insert(x.clone()) {
        if let Some(next) = edges.get(&x) {
          stack.extend(next.iter().cloned());
        }
      }
    }
  }
  false
}

#[derive(PartialEq, Eq, Debug, Clone, Copy)]
pub enum ChildOutcome {
  Completed,
  DiedInGoto,
  DiedEarlier,
}

/// Runs the whole analysis of `prog` in a child process (the real code overflows the
/// stack on the inputs of F-C16c, which would abort this process).
pub fn run_child(prog: &Prog, scratch: &std::path::Path, k: u64) -> ChildOutcome {
  let path = scratch.join(format!("c16child_{}_{}.json", std::process::id(), k));
  let v = serde_json::json!({
    "roots": prog.roots,
    "files": prog.files.iter().map(|f| serde_json::json!({"spec": f.spec, "content": f.content, "headers": f.headers})).collect::<Vec<_>>(),
  });
  if std::fs::write(&path, serde_json::to_vec(&v).unwrap()).is_err() {
    return ChildOutcome::DiedEarlier;
  }
  let exe = std::env::current_exe().unwrap();
  let child = std::process::Command::new(exe)
    .arg("c16child")
    .arg(&path)
    .stdout(std::process::Stdio::piped())
    .stderr(std::process::Stdio::null())
    .spawn();
  let Ok(mut child) = child else { return ChildOutcome::DiedEarlier };
  let t0 = std::time::Instant::now();
  let status = loop {
    match child.try_wait() {
      Ok(Some(st)) => break Some(st),
      Ok(None) => {
        if t0.elapsed() > Duration::from_secs(60) {
          let _ = child.kill();
          let _ = child.wait();
          break None;
        }
        std::thread::sleep(Duration::from_millis(10));
      }
      Err(_) => break None,
    }
  };
  let mut out = String::new();
  if let Some(mut so) = child.stdout.take() {
    use std::io::Read;
    let _ = so.read_to_string(&mut out);
  }
  let _ = std::fs::remove_file(&path);
  let ok = status.map(|s| s.success()).unwrap_or(false);
  if ok && out.contains("DONE") {
    ChildOutcome::Completed
  } else if out.contains("TABLES") {
    ChildOutcome::DiedInGoto
  } else {
    ChildOutcome::DiedEarlier
  }
}

/// `dgverif c16child <file>`: see run_child
pub fn child_main(path: &str) {
  let v: serde_json::Value = serde_json::from_slice(&std::fs::read(path).unwrap()).unwrap();
  let mut prog = Prog::default();
  for r in v["roots"].as_array().unwrap() {
    prog.roots.push(r.as_str().unwrap().to_string());
  }
  for f in v["files"].as_array().unwrap() {
    prog.files.push(SrcFile {
      spec: f["spec"].as_str().unwrap().to_string(),
      content: f["content"].as_array().unwrap().iter().map(|b| b.as_u64().unwrap() as u8).collect(),
      headers: f["headers"].as_array().unwrap().iter().map(|h| (h[0].as_str().unwrap().to_string(), h[1].as_str().unwrap().to_string())).collect(),
    });
  }
  let h = std::thread::Builder::new()
    .stack_size(32 << 20)
    .spawn(move || {
      let (tx, _rx) = mpsc::channel::<Msg>();
      let _ = analyse(&prog, &tx, false, true);
    })
    .unwrap();
  if h.join().is_ok() {
    println!("DONE");
  } else {
    std::process::exit(3);
  }
}

// ------------------------------------------------------------------ abstraction to the model vocabulary

struct Names {
  map: HashMap<String, u64>,
}
impl Names {
  fn new() -> Self {
    let mut map = HashMap::new();
    map.insert("default".to_string(), 0);
    Names { map }
  }
  fn id(&mut self, s: &str) -> u64 {
    let n = self.map.len() as u64;
    *self.map.entry(s.to_string()).or_insert(n)
  }
}

fn enc_pos(x: i64) -> u64 {
  // a position before the start of the text cannot be a natural number: map it far outside
  if x < 0 { 4_000_000_000u64 + (-x) as u64 } else { x as u64 }
}

fn abstract_dump(d: &Dump) -> (Sx, Sx) {
  let mut it = Names::new();
  // specifier ids first, in sorted order (deterministic)
  let mut all_specs: Vec<&String> = vec![];
  for (a, b) in &d.s2m {
    all_specs.push(a);
    all_specs.push(b);
  }
  for m in &d.mods {
    all_specs.push(&m.key);
  }
  all_specs.sort();
  for s in all_specs {
    it.id(s);
  }
  let mut mods = vec![];
  let mut obs = vec![];
  let has_qualified = d.mods.iter().any(|m| m.syms.iter().any(|s| s.decls.iter().any(|dd| dd.kind == 2)));
  for m in &d.mods {
    let stars = Sx::L(
      m.stars
        .iter()
        .map(|(t, r)| Sx::L(vec![Sx::A(it.id(t)), Sx::opt(r.as_ref().map(|r| Sx::A(it.id(r))))]))
        .collect(),
    );
    let syms = Sx::L(
      m.syms
        .iter()
        .map(|s| {
          Sx::L(vec![
            Sx::A(s.id),
            Sx::opt(s.parent.map(Sx::A)),
            Sx::opt(s.name.as_ref().map(|n| Sx::A(it.id(n)))),
            Sx::L(
              s.decls
                .iter()
                .map(|dd| {
                  let mut v = vec![
                    Sx::opt(dd.name.as_ref().map(|n| Sx::A(it.id(n)))),
                    Sx::A(enc_pos(dd.start)),
                    Sx::A(enc_pos(dd.end)),
                    Sx::A(dd.kind),
                  ];
                  if dd.target.is_some() || dd.file.is_some() || dd.import.is_some() {
                    v.push(Sx::opt(dd.target.map(Sx::A)));
                    v.push(Sx::opt(dd.file.as_ref().map(|f| Sx::A(it.id(f)))));
                    v.push(Sx::A(dd.import.as_ref().map(|n| it.id(n)).unwrap_or(0)));
                  }
                  Sx::L(v)
                })
                .collect(),
            ),
            Sx::atoms(s.children.iter().copied()),
            Sx::atoms(s.members.iter().copied()),
            Sx::L(s.exports.iter().map(|(n, i)| Sx::L(vec![Sx::A(it.id(n)), Sx::A(*i)])).collect()),
          ])
        })
        .collect(),
    );
    let tab = Sx::L(vec![Sx::A(m.root), Sx::A(m.text_len), syms]);
    let impl_names = Sx::atoms(m.resolved.iter().map(|r| it.id(&r.0)).collect::<Vec<_>>());
    let gotos_val = Sx::L(
      m.gotos
        .iter()
        .map(|(s, rs)| {
          Sx::L(vec![
            Sx::A(*s),
            Sx::L(
              rs.iter()
                .map(|g| match g {
                  GotoDump::Def { module, sym, decl, star } => Sx::L(vec![
                    Sx::A(0),
                    Sx::A(it.id(module)),
                    Sx::A(*sym),
                    Sx::A(decl.map(|i| i as u64).unwrap_or(999_999)),
                    Sx::b(*star),
                  ]),
                  GotoDump::Unres { module, kind } => Sx::L(vec![Sx::A(1), Sx::A(it.id(module)), Sx::A(*kind)]),
                })
                .collect(),
            ),
          ])
        })
        .collect(),
    );
    let gotos = gotos_val.clone();
    let hints = Sx::L(vec![
      Sx::atoms(m.hint_dotted.iter().map(|n| it.id(n)).collect::<Vec<_>>()),
      Sx::atoms(m.hint_conflict.iter().map(|n| it.id(n)).collect::<Vec<_>>()),
    ]);
    mods.push(Sx::L(vec![Sx::A(it.id(&m.key)), stars, tab, impl_names, gotos, hints]));
    let resolved = Sx::L(
      m.resolved
        .iter()
        .map(|(n, path, module, sym)| {
          Sx::L(vec![
            Sx::A(it.id(n)),
            Sx::L(path.iter().map(|(r, t)| Sx::L(vec![Sx::A(it.id(r)), Sx::A(it.id(t))])).collect()),
            Sx::A(it.id(module)),
            Sx::A(*sym),
          ])
        })
        .collect(),
    );
    let unresolved = Sx::L(m.unresolved.iter().map(|(r, t)| Sx::L(vec![Sx::A(it.id(r)), Sx::A(it.id(t))])).collect());
    // the model's go-to-definition is compared for programs without QualifiedTarget declarations
    let goto_obs = if has_qualified || d.goto_skipped { Sx::L(vec![]) } else { gotos_val };
    obs.push(Sx::L(vec![resolved, unresolved, Sx::judge(true), Sx::judge(true), Sx::judge(true), goto_obs]));
  }
  let s2m = Sx::L(d.s2m.iter().map(|(a, b)| Sx::L(vec![Sx::A(it.id(a)), Sx::A(it.id(b))])).collect());
  // program level: did every go-to-definition query come back (judged), input class of F-C16c
  let prog_in = Sx::L(vec![Sx::b(!d.goto_skipped), Sx::b(d.alias_cycle)]);
  obs.push(Sx::L(vec![Sx::judge(true)]));
  (Sx::L(vec![Sx::L(mods), s2m, prog_in]), Sx::L(obs))
}

// ------------------------------------------------------------------ cases

fn run_watched(prog: Prog, skip_goto: bool) -> Result<Dump, String> {
  let (tx, rx) = mpsc::channel::<Msg>();
  let p2 = prog.clone();
  let spawned = std::thread::Builder::new().stack_size(256 << 20).spawn(move || {
    let tx2 = tx.clone();
    let r = std::panic::catch_unwind(std::panic::AssertUnwindSafe(|| analyse(&p2, &tx2, skip_goto, false)));
    match r {
      Ok(d) => {
        let _ = tx.send(Msg::Done(Box::new(d)));
      }
      Err(p) => {
        let msg = if let Some(s) = p.downcast_ref::<String>() {
          s.clone()
        } else if let Some(s) = p.downcast_ref::<&str>() {
          s.to_string()
        } else {
          "panic".to_string()
        };
        let _ = tx.send(Msg::Panic(msg));
      }
    }
  });
  if spawned.is_err() {
    return Err("harness: could not spawn the analysis thread".into());
  }
  let mut limit = BUILD_SECS;
  let mut stage = 0;
  loop {
    match rx.recv_timeout(Duration::from_secs(limit)) {
      Ok(Msg::Progress) => {
        stage += 1;
        if stage >= 2 {
          limit = WATCHDOG_SECS;
        }
      }
      Ok(Msg::Done(d)) => return Ok(*d),
      Ok(Msg::Panic(m)) => return Err(format!("panic in the real code: {}", m)),
      Err(mpsc::RecvTimeoutError::Timeout) => {
        return Err(if stage < 2 {
          format!("graph build / module analysis made no progress for {} s", limit)
        } else {
          format!("export resolution / go-to-definition did not terminate (no progress for {} s, after {} steps)", limit, stage)
        });
      }
      Err(mpsc::RecvTimeoutError::Disconnected) => return Err("analysis thread vanished".into()),
    }
  }
}

pub fn case_of_prog(prog: Prog, extra_dist: Vec<(String, u64)>, with_sources: bool, scratch: &std::path::Path, k: u64) -> Case {
  let sources = if with_sources {
    serde_json::Value::Array(
      prog.files.iter().map(|f| serde_json::json!({"spec": f.spec, "text": String::from_utf8_lossy(&f.content)})).collect(),
    )
  } else {
    serde_json::Value::Null
  };
  let descr = prog.descr.clone();
  let roots = prog.roots.clone();
  let mut dist = extra_dist;
  let alias_cycle = alias_cycle_hint(&prog);
  let mut skip_goto = false;
  let mut early: Option<String> = None;
  if alias_cycle {
    dist.push(("alias_cycle_programs_run_in_child_process".into(), 1));
    match run_child(&prog, scratch, k) {
      ChildOutcome::Completed => dist.push(("alias_cycle_child_completed".into(), 1)),
      ChildOutcome::DiedInGoto => {
        dist.push(("alias_cycle_child_died_in_goto".into(), 1));
        skip_goto = true;
      }
      ChildOutcome::DiedEarlier => early = Some("child process died before the symbol tables were dumped".into()),
    }
  }
  let watched = match early {
    Some(e) => Err(e),
    None => run_watched(prog, skip_goto).map(|mut d| {
      d.alias_cycle = alias_cycle;
      d
    }),
  };
  match watched {
    Err(e) => Case {
      input: Sx::L(vec![Sx::L(vec![]), Sx::L(vec![]), Sx::L(vec![Sx::A(1), Sx::A(0)])]),
      obs: Sx::L(vec![Sx::L(vec![Sx::judge(true)])]),
      meta: serde_json::json!({"program": descr, "roots": roots, "sources": sources, "failure": e}),
      nontrivial: false,
      dist: vec![("watchdog_or_panic".into(), 1)],
      direct_violations: vec![e],
    },
    Ok(d) => {
      let (input, obs) = abstract_dump(&d);
      let n_mods = d.mods.len();
      let n_syms: usize = d.mods.iter().map(|m| m.syms.len()).sum();
      let n_stars: usize = d.mods.iter().map(|m| m.stars.len()).sum();
      let n_star_resolved: usize = d.mods.iter().map(|m| m.stars.iter().filter(|s| s.1.is_some()).count()).sum();
      let n_via_star: usize = d.mods.iter().map(|m| m.resolved.iter().filter(|r| !r.1.is_empty()).count()).sum();
      let n_unres: usize = d.mods.iter().map(|m| m.unresolved.len()).sum();
      let mut gd = 0u64;
      let mut gs = 0u64;
      let mut gu = 0u64;
      let mut gn = 0u64;
      let mut kinds = [0u64; 5];
      let mut alias_syms = 0u64;
      let mut member_syms = 0u64;
      let mut multi_decl = 0u64;
      for m in &d.mods {
        for (_, rs) in &m.gotos {
          if rs.is_empty() {
            gn += 1;
          }
          for r in rs {
            match r {
              GotoDump::Def { star: false, .. } => gd += 1,
              GotoDump::Def { star: true, .. } => gs += 1,
              GotoDump::Unres { .. } => gu += 1,
            }
          }
        }
        for s in &m.syms {
          for dd in &s.decls {
            kinds[dd.kind as usize] += 1;
          }
          if s.decls.iter().any(|dd| dd.kind != 0) {
            alias_syms += 1;
          }
          if s.decls.len() > 1 {
            multi_decl += 1;
          }
          member_syms += s.members.len() as u64;
        }
      }
      dist.push((format!("analysed_modules_{}", n_mods.min(8)), 1));
      dist.push(("modules".into(), n_mods as u64));
      dist.push(("symbols".into(), n_syms as u64));
      dist.push(("decl_definition".into(), kinds[0]));
      dist.push(("decl_target".into(), kinds[1]));
      dist.push(("decl_qualified_target".into(), kinds[2]));
      dist.push(("decl_fileref_name".into(), kinds[3]));
      dist.push(("decl_fileref_star".into(), kinds[4]));
      dist.push(("alias_symbols".into(), alias_syms));
      dist.push(("member_listings".into(), member_syms));
      dist.push(("symbols_with_several_decls".into(), multi_decl));
      dist.push(("star_reexports".into(), n_stars as u64));
      dist.push(("star_reexports_resolved".into(), n_star_resolved as u64));
      dist.push(("names_resolved_through_star".into(), n_via_star as u64));
      dist.push(("unresolved_star_specifiers".into(), n_unres as u64));
      dist.push(("goto_definitions".into(), gd));
      dist.push(("goto_export_star_definitions".into(), gs));
      dist.push(("goto_unresolved".into(), gu));
      dist.push(("goto_none".into(), gn));
      if d.goto_skipped {
        dist.push(("goto_not_run_in_process_child_crashed".into(), 1));
      }
      let direct: Vec<String> = d.internal.clone();
      Case {
        input,
        obs,
        meta: serde_json::json!({"program": descr, "roots": roots, "sources": sources,
          "modules": d.mods.iter().map(|m| m.key.clone()).collect::<Vec<_>>()}),
        nontrivial: n_mods >= 2 && n_syms >= 10 && n_star_resolved >= 1,
        dist,
        direct_violations: direct,
      }
    }
  }
}

/// hand-written programs for the corners the generator reaches rarely
fn fixed_programs() -> Vec<Prog> {
  let mk = |descr: &str, files: &[(&str, &str)]| Prog {
    files: files.iter().map(|(s, t)| SrcFile { spec: format!("file:///f/{}", s), content: t.as_bytes().to_vec(), headers: vec![] }).collect(),
    roots: files.iter().map(|(s, _)| format!("file:///f/{}", s)).collect(),
    descr: format!("fixed:{}", descr),
    ..Default::default()
  };
  vec![
    mk("star-cycle-3", &[
      ("a.ts", "export * from \"./b.ts\";\nexport const a = 1;\nexport default 1;\n"),
      ("b.ts", "export * from \"./c.ts\";\nexport const b = 1;\nexport default 2;\n"),
      ("c.ts", "export * from \"./a.ts\";\nexport const c = 1;\nexport const a = 2;\n"),
    ]),
    mk("star-self", &[("a.ts", "export * from \"./a.ts\";\nexport const a = 1;\n")]),
    mk("star-diamond", &[
      ("a.ts", "export * from \"./b.ts\";\nexport * from \"./c.ts\";\n"),
      ("b.ts", "export * from \"./d.ts\";\nexport const x = 1;\n"),
      ("c.ts", "export * from \"./d.ts\";\nexport const x = 2;\nexport const y = 2;\n"),
      ("d.ts", "export const d = 1;\nexport default class {}\n"),
    ]),
    mk("star-unresolved", &[("a.ts", "export * from \"./nope.ts\";\nexport * from \"./b.ts\";\n"), ("b.ts", "export * from \"./nope2.ts\";\nexport const b = 1;\n")]),
    mk("dotted-namespaces", &[(
      "a.ts",
      "export namespace A.B { export const x = 1; }\nexport namespace X.B { export const y = 2; }\nnamespace A.B { export const z = 3; }\n",
    )]),
    mk("merge-fn-ns-expando", &[(
      "a.ts",
      "export function f(a: string): void;\nexport function f(a?: any) {}\nexport namespace f { export const x = 1; }\nf.x = 2;\nf.y = () => 1;\n",
    )]),
    mk("class-interface-merge", &[(
      "a.ts",
      "export class C { static s = 1; p = 1; m() {} static m() {} }\nexport interface C { q: string; m(): void }\nexport namespace C { export const s2 = 1; }\n",
    )]),
    mk("goto-chain", &[
      ("a.ts", "export { x as y } from \"./b.ts\";\nimport { y as z } from \"./a.ts\";\nexport { z };\nexport * as ns from \"./b.ts\";\n"),
      ("b.ts", "export * from \"./c.ts\";\n"),
      ("c.ts", "export const x = 1;\nexport { x as w } from \"./a.ts\";\n"),
    ]),
    mk("goto-cycle", &[
      ("a.ts", "export { p } from \"./b.ts\";\nexport { q } from \"./b.ts\";\n"),
      ("b.ts", "export { p } from \"./a.ts\";\nexport * from \"./a.ts\";\n"),
    ]),
    mk("alias-cycle-namespace-import", &[("a.ts", "import * as ns from \"./a.ts\";\nexport import X = ns.X;\n")]),
    mk("alias-cycle-local-namespace", &[("a.ts", "namespace N { export import Y = N.Y; }\n")]),
    mk("alias-cycle-default", &[("a.ts", "import F from \"./a.ts\";\nexport import E = F.F;\nexport default E;\n")]),
    mk("import-equals", &[(
      "a.ts",
      "namespace N { export namespace M { export const v = 1; export type T = string; } }\nimport A = N.M;\nexport import B = N.M.v;\nimport C = A.T;\nexport { A, C };\n",
    )]),
  ]
}

pub fn gen_case(seed: u64, k: u64, corpus: &[std::path::PathBuf], fixed: &[Prog], scratch: &std::path::Path) -> Case {
  let k0 = k;
  let k = k as usize;
  if k < corpus.len() {
    let path = &corpus[k];
    let kind = if path.to_string_lossy().contains("/symbols/") { "corpus_symbols_spec" } else { "corpus_graph_spec" };
    return match parse_spec_file(path) {
      Some(p) => case_of_prog(p, vec![(kind.to_string(), 1)], false, scratch, k0),
      None => Case {
        input: Sx::L(vec![Sx::L(vec![]), Sx::L(vec![]), Sx::L(vec![Sx::A(1), Sx::A(0)])]),
        obs: Sx::L(vec![Sx::L(vec![Sx::judge(true)])]),
        meta: serde_json::json!({"program": path.display().to_string(), "skipped": "unparsable spec file"}),
        nontrivial: false,
        dist: vec![("corpus_unparsable".into(), 1)],
        direct_violations: vec![],
      },
    };
  }
  let k = k - corpus.len();
  if k < fixed.len() {
    return case_of_prog(fixed[k].clone(), vec![("fixed_program".into(), 1)], true, scratch, k0);
  }
  let mut rng = Rng::for_case(seed, k as u64);
  let adversarial = rng.chance(20);
  let g = gen_program(&mut rng, adversarial);
  let mut dist: Vec<(String, u64)> = g.features.iter().map(|(f, n)| (format!("gen_{}", f), *n)).collect();
  dist.push((if adversarial { "generated_adversarial".to_string() } else { "generated_structured".to_string() }, 1));
  case_of_prog(prog_of_gen(&g), dist, true, scratch, k0)
}

pub fn run(cfg: &RunCfg) {
  let corpus = corpus_files();
  let fixed = fixed_programs();
  let n_gen: u64 = if cfg.tier == Tier::Quick { 1300 } else { 40000 };
  let n = corpus.len() as u64 + fixed.len() as u64 + n_gen;
  let scratch = cfg.out_dir.clone();
  std::fs::create_dir_all(&scratch).unwrap();
  run_cases(cfg, n, |seed, k| gen_case(seed, k, &corpus, &fixed, &scratch));
}

/// development / confirmation helper: `dgverif c16probe <dir>` analyses the files of
/// a directory (served as file:///f/<name>) with the real code and prints the tables
pub fn probe(dir: &str) {
  let mut files = vec![];
  let mut names: Vec<_> = std::fs::read_dir(dir).unwrap().flatten().map(|e| e.path()).collect();
  names.sort();
  for p in names {
    let name = p.file_name().unwrap().to_string_lossy().to_string();
    files.push(SrcFile { spec: format!("file:///f/{}", name), content: std::fs::read(&p).unwrap(), headers: vec![] });
  }
  let prog = Prog { roots: files.iter().map(|f| f.spec.clone()).collect(), files, descr: "probe".into(), ..Default::default() };
  let texts: HashMap<String, Vec<u8>> = prog.files.iter().map(|f| (f.spec.clone(), f.content.clone())).collect();
  match run_watched(prog, false) {
    Err(e) => println!("FAILURE: {}", e),
    Ok(d) => {
      for m in &d.mods {
        println!("== {} root={} len={} stars={:?}", m.key, m.root, m.text_len, m.stars);
        let text = texts.get(&m.key);
        for s in &m.syms {
          println!("  sym {} parent={:?} name={:?} children={:?} members={:?} exports={:?}", s.id, s.parent, s.name, s.children, s.members, s.exports);
          for dd in &s.decls {
            let snippet = text
              .and_then(|t| t.get(dd.start.max(0) as usize..(dd.end.max(0) as usize).min(t.len())))
              .map(|b| String::from_utf8_lossy(b).replace('\n', "\\n").chars().take(70).collect::<String>())
              .unwrap_or_default();
            println!("     decl kind={} name={:?} {}..{} `{}`", dd.kind, dd.name, dd.start, dd.end, snippet);
          }
        }
        println!("  exports: {:?}", m.resolved);
        println!("  unresolved: {:?}", m.unresolved);
        for (s, rs) in &m.gotos {
          println!("  goto {} -> {:?}", s, rs);
        }
      }
      for i in &d.internal {
        println!("INTERNAL: {}", i);
      }
    }
  }
}
