//! C09: fast-check output parses and is closed under reference.
//!
//! Case kinds (first atom of the model input):
//!   0  NamedSubset operation sequence through the hook `named_subset_op`
//!   1  Exports::extend pairs through `exports_extend`
//!   2  ImportedExports::add sequence through `imported_exports_add`
//!   3  ImportedExports::add of one state against a list of increments (the
//!      exhaustive all-pairs enumeration is cut into such lines)
//!   10 closure facts of every module of one real fast-check run (corpus spec
//!      or generated world), judged by the Coq decision procedure `closedb`
use crate::common::*;
use crate::fcheck::*;
use crate::rng::Rng;
use crate::sexp::Sx;
use deno_graph::fast_check::verif_range_finder as hook;
use serde_json::{json, Value};
use std::collections::BTreeMap;

const NAMES: &[&str] = &["default", "a", "b", "prototype", "c"];

// ---- lattice values: an own tree type, convertible to the hook's JSON and to the wire format
#[derive(Clone, Debug, PartialEq)]
enum Ex {
  All,
  Sub(Vec<(u64, Ex)>),
}
#[derive(Clone, Debug, PartialEq)]
enum Imp {
  Star,
  StarDef,
  Sub(Vec<(u64, Ex)>),
}

fn named_json(s: &[(u64, Ex)]) -> Value {
  let mut m = serde_json::Map::new();
  for (k, e) in s {
    m.insert(NAMES[*k as usize].to_string(), ex_json(e));
  }
  Value::Object(m)
}
fn ex_json(e: &Ex) -> Value {
  match e {
    Ex::All => json!("all"),
    Ex::Sub(s) => named_json(s),
  }
}
fn imp_json(i: &Imp) -> Value {
  match i {
    Imp::Star => json!("star"),
    Imp::StarDef => json!("star_with_default"),
    Imp::Sub(s) => json!({ "subset": named_json(s) }),
  }
}
fn name_id(s: &str) -> u64 {
  NAMES.iter().position(|n| *n == s).expect("name of the universe") as u64
}
fn named_of_json(v: &Value) -> Vec<(u64, Ex)> {
  v.as_object().map(|m| m.iter().map(|(k, e)| (name_id(k), ex_of_json(e))).collect()).unwrap_or_default()
}
fn ex_of_json(v: &Value) -> Ex {
  match v {
    Value::String(_) => Ex::All,
    _ => Ex::Sub(named_of_json(v)),
  }
}
fn imp_of_json(v: &Value) -> Imp {
  match v {
    Value::String(s) if s == "star" => Imp::Star,
    Value::String(_) => Imp::StarDef,
    _ => Imp::Sub(named_of_json(&v["subset"])),
  }
}
fn named_sx(s: &[(u64, Ex)]) -> Sx {
  Sx::L(s.iter().map(|(k, e)| Sx::L(vec![Sx::A(*k), ex_sx(e)])).collect())
}
fn ex_sx(e: &Ex) -> Sx {
  match e {
    Ex::All => Sx::A(0),
    Ex::Sub(s) => named_sx(s),
  }
}
fn imp_sx(i: &Imp) -> Sx {
  match i {
    Imp::Star => Sx::A(0),
    Imp::StarDef => Sx::A(1),
    Imp::Sub(s) => Sx::L(vec![named_sx(s)]),
  }
}

fn gen_named(rng: &mut Rng, depth: usize, universe: usize) -> Vec<(u64, Ex)> {
  let mut keys: Vec<u64> = (0..universe as u64).collect();
  rng.shuffle(&mut keys);
  let n = rng.below(universe.min(3) + 1);
  keys.truncate(n);
  keys.into_iter().map(|k| (k, gen_ex(rng, depth - 1, universe))).collect()
}
fn gen_ex(rng: &mut Rng, depth: usize, universe: usize) -> Ex {
  if depth == 0 || rng.chance(45) { Ex::All } else { Ex::Sub(gen_named(rng, depth, universe)) }
}
fn gen_imp(rng: &mut Rng, depth: usize, universe: usize) -> Imp {
  match rng.below(10) {
    0 => Imp::Star,
    1 => Imp::StarDef,
    _ => Imp::Sub(gen_named(rng, depth, universe)),
  }
}
fn gen_parts(rng: &mut Rng, max: usize) -> Vec<u64> {
  let n = rng.below(max + 1);
  (0..n).map(|_| rng.below(NAMES.len()) as u64).collect()
}
fn parts_json(p: &[u64]) -> Value {
  Value::Array(p.iter().map(|k| json!(NAMES[*k as usize])).collect())
}

/// all NamedSubset values of nesting depth <= `depth` over names 0..universe (keys ascending,
/// or descending when `rev`)
fn all_named(depth: usize, universe: usize, rev: bool) -> Vec<Vec<(u64, Ex)>> {
  let mut options: Vec<Option<Ex>> = vec![None, Some(Ex::All)];
  if depth > 1 {
    for s in all_named(depth - 1, universe, rev) {
      options.push(Some(Ex::Sub(s)));
    }
  }
  let mut out: Vec<Vec<(u64, Ex)>> = vec![vec![]];
  for k in 0..universe as u64 {
    let mut next = vec![];
    for base in &out {
      for o in &options {
        let mut b = base.clone();
        if let Some(e) = o {
          b.push((k, e.clone()));
        }
        next.push(b);
      }
    }
    out = next;
  }
  if rev {
    for s in out.iter_mut() {
      s.reverse();
    }
  }
  out
}

fn lattice_seq_case(seed: u64, k: u64) -> Case {
  let mut rng = Rng::for_case(seed, k);
  let mut dist = vec![];
  match rng.below(10) {
    0..=4 => {
      // NamedSubset operation sequence
      let mut state = if rng.chance(50) { vec![] } else { gen_named(&mut rng, 2, NAMES.len()) };
      let n_ops = rng.range(1, 12);
      let mut ops_sx = vec![];
      let mut obs = vec![];
      let mut meta_ops = vec![];
      let state0 = state.clone();
      for _ in 0..n_ops {
        let (op_json, op_sx, nm) = match rng.below(10) {
          0 => {
            let p = gen_parts(&mut rng, 3);
            (json!(["from_parts", parts_json(&p)]), Sx::L(vec![Sx::A(0), Sx::atoms(p)]), "from_parts")
          }
          1..=2 => {
            let n = rng.below(NAMES.len()) as u64;
            (json!(["add", NAMES[n as usize]]), Sx::L(vec![Sx::A(1), Sx::A(n)]), "add")
          }
          3..=5 => {
            let n = rng.below(NAMES.len()) as u64;
            let p = gen_parts(&mut rng, 3);
            (json!(["add_qualified", NAMES[n as usize], parts_json(&p)]), Sx::L(vec![Sx::A(2), Sx::A(n), Sx::atoms(p)]), "add_qualified")
          }
          6..=7 => {
            let n = rng.below(NAMES.len()) as u64;
            let e = gen_ex(&mut rng, 2, NAMES.len());
            (json!(["add_named", NAMES[n as usize], ex_json(&e)]), Sx::L(vec![Sx::A(3), Sx::A(n), ex_sx(&e)]), "add_named")
          }
          _ => {
            let s = gen_named(&mut rng, 3, NAMES.len());
            (json!(["extend", named_json(&s)]), Sx::L(vec![Sx::A(4), named_sx(&s)]), "extend")
          }
        };
        dist.push((format!("op_{}", nm), 1));
        let r = hook::named_subset_op(&named_json(&state), &op_json);
        state = named_of_json(&r[0]);
        let res = if r[1].is_null() { Sx::L(vec![]) } else { Sx::L(vec![named_sx(&named_of_json(&r[1]))]) };
        obs.push(Sx::L(vec![named_sx(&state), res]));
        ops_sx.push(op_sx);
        meta_ops.push(op_json);
      }
      Case {
        input: Sx::L(vec![Sx::A(0), named_sx(&state0), Sx::L(ops_sx)]),
        obs: Sx::L(obs),
        meta: json!({"kind": "named_subset ops", "state0": named_json(&state0), "ops": meta_ops}),
        nontrivial: n_ops >= 3,
        dist,
        direct_violations: vec![],
      }
    }
    5..=6 => {
      // Exports::extend pairs
      let n = rng.range(1, 8);
      let mut ins = vec![];
      let mut obs = vec![];
      let mut meta = vec![];
      for _ in 0..n {
        let a = gen_ex(&mut rng, 3, NAMES.len());
        let b = gen_ex(&mut rng, 3, NAMES.len());
        let r = hook::exports_extend(&ex_json(&a), &ex_json(&b));
        let d = if r[1].is_null() { Sx::L(vec![]) } else { Sx::L(vec![ex_sx(&ex_of_json(&r[1]))]) };
        obs.push(Sx::L(vec![ex_sx(&ex_of_json(&r[0])), d]));
        ins.push(Sx::L(vec![ex_sx(&a), ex_sx(&b)]));
        meta.push(json!([ex_json(&a), ex_json(&b)]));
      }
      dist.push(("exports_extend".into(), n as u64));
      Case {
        input: Sx::L(vec![Sx::A(1), Sx::L(ins)]),
        obs: Sx::L(obs),
        meta: json!({"kind": "exports_extend", "pairs": meta}),
        nontrivial: true,
        dist,
        direct_violations: vec![],
      }
    }
    _ => {
      // ImportedExports::add sequence (what HandledExports / PendingTraces do per specifier)
      let mut state = gen_imp(&mut rng, 3, NAMES.len());
      let state0 = state.clone();
      let n = rng.range(1, 12);
      let mut news = vec![];
      let mut obs = vec![];
      let mut meta = vec![];
      for _ in 0..n {
        let new = gen_imp(&mut rng, 3, NAMES.len());
        let r = hook::imported_exports_add(&imp_json(&state), &imp_json(&new));
        state = imp_of_json(&r[0]);
        let d = if r[1].is_null() { Sx::L(vec![]) } else { Sx::L(vec![imp_sx(&imp_of_json(&r[1]))]) };
        obs.push(Sx::L(vec![imp_sx(&state), d]));
        news.push(imp_sx(&new));
        meta.push(imp_json(&new));
      }
      dist.push(("imported_add".into(), n as u64));
      Case {
        input: Sx::L(vec![Sx::A(2), imp_sx(&state0), Sx::L(news)]),
        obs: Sx::L(obs),
        meta: json!({"kind": "imported_exports_add sequence", "state0": imp_json(&state0), "news": meta}),
        nontrivial: n >= 3,
        dist,
        direct_violations: vec![],
      }
    }
  }
}

fn all_imported(depth: usize, universe: usize, rev: bool) -> Vec<Imp> {
  let mut v = vec![Imp::Star, Imp::StarDef];
  v.extend(all_named(depth, universe, rev).into_iter().map(Imp::Sub));
  v
}

/// one line of the exhaustive enumeration: state `cur` against every increment
fn lattice_pairs_case(cur: &Imp, news: &[Imp], universe: usize) -> Case {
  let mut obs = vec![];
  for new in news {
    let r = hook::imported_exports_add(&imp_json(cur), &imp_json(new));
    let d = if r[1].is_null() { Sx::L(vec![]) } else { Sx::L(vec![imp_sx(&imp_of_json(&r[1]))]) };
    obs.push(Sx::L(vec![imp_sx(&imp_of_json(&r[0])), d]));
  }
  Case {
    input: Sx::L(vec![Sx::A(3), imp_sx(cur), Sx::L(news.iter().map(imp_sx).collect())]),
    obs: Sx::L(obs),
    meta: json!({"kind": "imported_exports_add all pairs", "cur": imp_json(cur), "increments": news.len(), "universe": universe}),
    nontrivial: true,
    dist: vec![("exhaustive_pairs".into(), news.len() as u64)],
    direct_violations: vec![],
  }
}

// ---- closure cases

struct Interner(BTreeMap<String, u64>);
impl Interner {
  fn new() -> Self {
    let mut m = BTreeMap::new();
    m.insert("default".to_string(), 0);
    Interner(m)
  }
  fn id(&mut self, s: &str) -> u64 {
    let n = self.0.len() as u64;
    *self.0.entry(s.to_string()).or_insert(n)
  }
}

pub fn closure_case(name: &str, world: &FcWorld, extra_meta: Value, mut dist: Vec<(String, u64)>) -> Case {
  let run = run_fast_check(world, None);
  let facts = if run.skipped { vec![] } else { closure_facts(&run.graph) };
  let ids: BTreeMap<String, u64> = facts.iter().enumerate().map(|(i, f)| (f.spec.clone(), i as u64)).collect();
  let mut names = Interner::new();
  let mut mods_sx = vec![];
  let mut obs = vec![];
  let mut details = vec![];
  let mut n_out = 0;
  let mut n_segs = 0u64;
  let mut n_ident_segs = 0u64;
  for (i, f) in facts.iter().enumerate() {
    let mut open = f.open;
    let mut stars = vec![];
    for s in &f.stars {
      match s.as_ref().and_then(|s| ids.get(s)) {
        Some(id) => stars.push(Sx::A(*id)),
        None => open = true,
      }
    }
    let imports: Vec<Sx> = f
      .imports
      .iter()
      .filter_map(|(t, n)| ids.get(t).map(|id| Sx::L(vec![Sx::A(*id), Sx::A(names.id(n))])))
      .collect();
    let sm = &f.sm;
    let segs: Vec<Sx> = sm.segs.iter().map(|s| Sx::atoms(s.iter().cloned())).collect();
    n_segs += sm.segs.len() as u64;
    n_ident_segs += sm.segs.iter().filter(|s| s[5] == 1).count() as u64;
    mods_sx.push(Sx::L(vec![
      Sx::A(i as u64),
      Sx::b(f.has_output),
      Sx::b(f.parse_ok),
      Sx::b(open),
      Sx::atoms(f.own_exports.iter().map(|n| names.id(n))),
      Sx::L(stars),
      Sx::atoms(f.unresolved_out.iter().map(|n| names.id(n))),
      Sx::atoms(f.unresolved_private.iter().map(|n| names.id(n))),
      Sx::atoms(f.top_orig.iter().map(|n| names.id(n))),
      Sx::L(imports),
      Sx::atoms(f.rel.iter().map(|(_, ok)| *ok as u64)),
      Sx::L(vec![Sx::b(sm.decodes), Sx::A(sm.n_sources), Sx::atoms(sm.out_lens.iter().cloned()), Sx::atoms(sm.orig_lens.iter().cloned()), Sx::L(segs)]),
    ]));
    // the implementation is expected to satisfy every clause
    obs.push(Sx::L(vec![Sx::A(i as u64), Sx::b(f.has_output), Sx::judge(true), Sx::judge(true), Sx::judge(true), Sx::judge(true), Sx::judge(true)]));
    if f.has_output {
      n_out += 1;
    }
    let dangling: Vec<&String> = f.unresolved_out.iter().filter(|n| f.top_orig.contains(n)).collect();
    let dangling_private: Vec<&String> = f.unresolved_private.iter().filter(|n| f.top_orig.contains(n)).collect();
    let bad_rel: Vec<&String> = f.rel.iter().filter(|(_, ok)| !ok).map(|(t, _)| t).collect();
    if !dangling.is_empty() || !dangling_private.is_empty() || !bad_rel.is_empty() || !sm.mismatches.is_empty() || !f.notes.is_empty() || (f.has_output && (!f.parse_ok || !sm.decodes)) {
      details.push(json!({"module": f.spec, "dangling": dangling, "dangling_in_private_members": dangling_private, "unresolved_relative": bad_rel,
        "source_map_mismatches": sm.mismatches.iter().take(5).collect::<Vec<_>>(), "notes": f.notes,
        "parse_ok": f.parse_ok, "source_map_decodes": sm.decodes}));
    }
  }
  dist.push(("modules".into(), facts.len() as u64));
  dist.push(("import_requirements".into(), facts.iter().filter(|f| f.has_output).map(|f| f.imports.len() as u64).sum()));
  dist.push(("export_star_edges".into(), facts.iter().map(|f| f.stars.len() as u64).sum()));
  dist.push(("relative_specifiers_in_outputs".into(), facts.iter().map(|f| f.rel.len() as u64).sum()));
  dist.push(("unresolved_identifiers_in_outputs".into(), facts.iter().map(|f| (f.unresolved_out.len() + f.unresolved_private.len()) as u64).sum()));
  dist.push(("private_declarations_pulled_in".into(), facts.iter().map(|f| f.pulled as u64).sum()));
  dist.push(("private_declarations_dropped".into(), facts.iter().map(|f| f.dropped as u64).sum()));
  dist.push(("modules_with_output".into(), n_out));
  dist.push(("source_map_segments".into(), n_segs));
  dist.push(("source_map_identifier_segments".into(), n_ident_segs));
  if run.skipped {
    dist.push(("graph_errors_no_fast_check".into(), 1));
  }
  let mut codes: std::collections::BTreeSet<String> = Default::default();
  for s in slots(&run.graph).values() {
    if let Slot::Error(ds) = s {
      for (c, _) in ds {
        codes.insert(c.clone());
      }
    }
  }
  if !codes.is_empty() {
    dist.push(("worlds_with_diagnostics".into(), 1));
  }
  for c in codes {
    dist.push((format!("diag_{}", c), 1));
  }
  let mut meta = json!({"kind": "closure", "name": name, "modules_with_output": n_out, "details": details, "extra": extra_meta});
  if name.starts_with("gen") {
    meta["files"] = json!(world.files.iter().filter(|(k, _)| !k.ends_with("meta.json")).map(|(k, v)| (k.clone(), v.0.clone())).collect::<BTreeMap<_, _>>());
  }
  Case {
    input: Sx::L(vec![Sx::A(10), Sx::L(mods_sx)]),
    obs: Sx::L(obs),
    meta,
    nontrivial: facts.iter().any(|f| f.has_output && f.pulled >= 1 && f.dropped >= 1),
    dist,
    direct_violations: vec![],
  }
}

pub fn run(cfg: &RunCfg) {
  let thorough = cfg.tier == Tier::Thorough;
  // stream sizes are chosen so that the stride of the in-Coq sample of tools/check meets all four streams
  let n_seq: u64 = if thorough { 60_000 } else { 2_119 };
  let universe = if thorough { 3 } else { 2 };
  let curs = all_imported(2, universe, false);
  // increments with the keys in the opposite insertion order, so that order handling is exercised
  let news = all_imported(2, universe, true);
  let n_pairs = curs.len() as u64;
  let corpus = load_corpus();
  let n_corpus = corpus.len() as u64;
  let n_gen: u64 = if thorough { 12_000 } else { 700 };
  let total = n_pairs + n_gen + n_corpus + n_seq;
  run_cases(cfg, total, |seed, k| {
    if k < n_pairs {
      lattice_pairs_case(&curs[k as usize], &news, universe)
    } else if k < n_pairs + n_gen {
      let mut rng = Rng::for_case(seed, k);
      let workspace = rng.chance(10);
      let (world, info) = gen_world(&mut rng, &GenCfg { max_pkgs: 3, fail_pct: 12, cross_pkg_star: true, workspace });
      let mut dist: Vec<(String, u64)> = info.kinds.iter().map(|(k, v)| (format!("gen_{}", k), *v)).collect();
      dist.push(("generated_worlds".into(), 1));
      if workspace {
        dist.push(("generated_workspace_worlds".into(), 1));
      }
      closure_case(&format!("gen-{}", k), &world, json!({"packages": info.pkgs.iter().map(|p| json!({"name": p.name, "modules": p.modules, "exports": p.exports, "failing": p.failing})).collect::<Vec<_>>()}), dist)
    } else if k < n_pairs + n_gen + n_corpus {
      let (name, world) = &corpus[(k - n_pairs - n_gen) as usize];
      closure_case(name, world, json!({}), vec![("corpus_specs".into(), 1)])
    } else {
      lattice_seq_case(seed, k)
    }
  });
}
