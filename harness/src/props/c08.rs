//! C08: module analysis reports every dependency once, with exact specifier ranges.
//!
//! Layers driven here (see coq/Model/RunC08.v for the wire format):
//!   kind 0  offset -> (line, character): the model's `pos_of_offset` against the REAL
//!           `deno_graph::Position::from_source_pos` (text_lines) on EVERY byte offset of
//!           generated texts (multi-byte, astral, CR, CRLF, LS/PS, leading BOM);
//!   kind 1  the model's recognisers against the REAL `deno_graph::analysis::find_*` /
//!           `is_comment_triple_slash_reference` (regex) on generated comment texts;
//!   kind 2  the REAL analyser (`ParserModuleAnalyzer::analyze_sync`) and the REAL graph module
//!           (`deno_graph::parse_module`, real `Dependency::includes`) on every module source
//!           embedded in /repo/tests/specs/**/*.txt and on generated programs; every reported
//!           range is judged by the extracted Coq decision procedures (slice equality through
//!           the model's offset_of_pos, pairwise separation, lookups), and for pragma items the
//!           model's own recogniser + comment range arithmetic is evaluated on the real comment
//!           and compared with what the analyser reported.
use crate::common::*;
use crate::rng::Rng;
use crate::sexp::Sx;
use deno_ast::SourceRangedForSpanned;
use deno_ast::SourceTextInfo;
use deno_graph::analysis::*;
use deno_graph::ast::ParserModuleAnalyzer;
use deno_graph::source::*;
use deno_graph::*;
use std::collections::HashMap;
use std::sync::Arc;

fn chars_sx(s: &str) -> Sx {
  Sx::atoms(s.chars().map(|c| c as u64))
}

/// meta.jsonl is split into lines by Python's str.splitlines(), which also breaks at U+0085,
/// U+2028 and U+2029 (serde_json escapes the C0 controls only): show those three escaped
fn show(s: &str) -> String {
  let mut out = String::new();
  for c in s.chars() {
    match c {
      '\u{85}' | '\u{2028}' | '\u{2029}' => out.push_str(&format!("\\u{{{:x}}}", c as u32)),
      _ => out.push(c),
    }
  }
  out
}

fn catch<T>(f: impl FnOnce() -> T) -> Option<T> {
  std::panic::catch_unwind(std::panic::AssertUnwindSafe(f)).ok()
}

// ------------------------------------------------------------------ kind 0

const POS_ALPHABET: [&str; 22] = [
  "a", "b", " ", "\t", "\n", "\n", "\r", "\r\n", "\r\n", "é", "ß", "€", "π", "😀", "𝒳", "\u{2028}", "\u{2029}",
  "\u{feff}", "\"", "'", "/", "e\u{301}",
];

fn gen_pos_text(rng: &mut Rng) -> String {
  let mut s = String::new();
  match rng.below(10) {
    0 => s.push('\u{feff}'),
    1 => s.push_str("\u{feff}\u{feff}"),
    _ => {}
  }
  let n = rng.range(0, 28);
  for _ in 0..n {
    s.push_str(*rng.pick(&POS_ALPHABET));
  }
  s
}

/// every text of at most 3 characters over {a, e-acute, astral, LF, CR, BOM}
fn exhaustive_pos_texts() -> Vec<String> {
  let alpha = ['a', 'é', '😀', '\n', '\r', '\u{feff}'];
  let mut out = vec![String::new()];
  let mut layer = vec![String::new()];
  for _ in 0..3 {
    let mut next = vec![];
    for t in &layer {
      for c in alpha {
        let mut u = t.clone();
        u.push(c);
        next.push(u);
      }
    }
    out.extend(next.iter().cloned());
    layer = next;
  }
  out
}

fn positions_case(rng: &mut Rng, n_texts: usize, exhaustive: bool) -> Case {
  let fixed = if exhaustive { exhaustive_pos_texts() } else { vec![] };
  let n_texts = if exhaustive { fixed.len() } else { n_texts };
  let mut texts = vec![];
  let mut obs = vec![];
  let mut dist: Vec<(String, u64)> = vec![];
  let mut sample = String::new();
  let mut nontrivial = false;
  for i in 0..n_texts {
    let t = if exhaustive { fixed[i].clone() } else { gen_pos_text(rng) };
    if exhaustive {
      dist.push(("pos_texts_exhaustive_len_le3_over_6_chars".into(), 1));
    }
    // new_with_indent_width does NOT strip a BOM (SourceTextInfo::new would), so text_lines'
    // own BOM handling is exercised
    let ti = SourceTextInfo::new_with_indent_width(
      deno_ast::StartSourcePos::START_SOURCE_POS.as_source_pos(),
      Arc::from(t.as_str()),
      2,
    );
    let start = ti.range().start;
    let mut all = vec![];
    for o in 0..=t.len() {
      let p = Position::from_source_pos(start + o, &ti);
      all.push(Sx::atoms([p.line as u64, p.character as u64]));
    }
    let bom = t.starts_with('\u{feff}');
    let mut bounds: Vec<u64> = t.char_indices().map(|(i, _)| i as u64).collect();
    bounds.push(t.len() as u64);
    if bom {
      bounds.remove(0);
    }
    obs.push(Sx::L(vec![Sx::L(all), Sx::atoms(bounds)]));
    if t.contains('\n') && t.chars().any(|c| c.len_utf8() > 1) {
      nontrivial = true;
    }
    dist.push(("pos_texts".into(), 1));
    dist.push(("pos_offsets".into(), t.len() as u64 + 1));
    if bom {
      dist.push(("pos_texts_with_bom".into(), 1));
    }
    if t.contains("\r\n") {
      dist.push(("pos_texts_with_crlf".into(), 1));
    }
    if t.chars().any(|c| c.len_utf8() == 4) {
      dist.push(("pos_texts_with_astral".into(), 1));
    }
    if sample.is_empty() {
      sample = show(&t);
    }
    texts.push(chars_sx(&t));
  }
  Case {
    input: Sx::L(vec![Sx::A(0), Sx::L(texts)]),
    obs: Sx::L(obs),
    meta: serde_json::json!({"kind": "positions", "texts": n_texts, "first": sample, "exhaustive": exhaustive}),
    nontrivial,
    dist,
    direct_violations: vec![],
  }
}

// ------------------------------------------------------------------ kind 1

const PRAGMA_NAMES: [&str; 10] = [
  "find_path_reference",
  "find_types_reference",
  "find_resolution_mode",
  "find_jsx_import_source",
  "find_jsx_import_source_types",
  "find_source_mapping_url",
  "find_ts_self_types",
  "find_ts_types",
  "find_deno_types",
  "is_comment_triple_slash_reference",
];
const KEYWORDS: [&str; 10] = [
  "path",
  "types",
  "resolution-mode",
  "@jsxImportSource",
  "@jsxImportSourceTypes",
  "sourceMappingURL",
  "@ts-self-types",
  "@ts-types",
  "@deno-types",
  "<reference",
];
// White_Space members, then look-alikes that are NOT White_Space
const TRUE_WS: [&str; 14] = [
  " ", " ", " ", "\t", "\u{a0}", "\u{2003}", "\u{3000}", "\u{85}", "\n", "\r", "\u{2028}", "\u{1680}", "\u{202f}", "\u{c}",
];
const FAKE_WS: [&str; 4] = ["\u{200b}", "\u{feff}", "\u{180e}", "\u{1c}"];

fn ws_run(rng: &mut Rng, lo: usize, hi: usize) -> String {
  let mut s = String::new();
  for _ in 0..rng.range(lo, hi) {
    if rng.chance(4) {
      s.push_str(*rng.pick(&FAKE_WS));
    } else {
      s.push_str(*rng.pick(&TRUE_WS));
    }
  }
  s
}

fn mangle_kw(rng: &mut Rng, kw: &str) -> String {
  let mut cs: Vec<char> = kw.chars().collect();
  // case
  match rng.below(4) {
    0 => {}
    1 => cs = cs.iter().map(|c| c.to_ascii_uppercase()).collect(),
    2 => cs = cs.iter().map(|c| c.to_ascii_lowercase()).collect(),
    _ => {
      cs = cs
        .iter()
        .map(|c| if rng.chance(50) { c.to_ascii_uppercase() } else { c.to_ascii_lowercase() })
        .collect()
    }
  }
  // simple case folding beyond ASCII: long s, Kelvin sign
  if rng.chance(6) {
    for c in cs.iter_mut() {
      if (*c == 's' || *c == 'S') && rng.chance(60) {
        *c = '\u{17f}';
      }
    }
  }
  // near misses
  if rng.chance(12) && !cs.is_empty() {
    let i = rng.below(cs.len());
    match rng.below(4) {
      0 => {
        cs.remove(i);
      }
      1 => cs.insert(i, *rng.pick(&['x', '-', 's', '\u{131}', '\u{212a}'])),
      2 => cs[i] = *rng.pick(&['x', '_', '\u{130}', '\u{212a}', 'z']),
      _ => {
        if i + 1 < cs.len() {
          cs.swap(i, i + 1)
        }
      }
    }
  }
  cs.into_iter().collect()
}

const VALUES: [&str; 16] = [
  "./a.d.ts",
  "./módulo/π.ts",
  "./😀.js",
  "a b",
  "",
  "x\ny",
  "https://example.com/a.ts",
  "preact",
  "a'b",
  "a\"b",
  "{import(\"./x\")}",
  "require",
  "import",
  "=",
  "./a.d.ts\u{a0}",
  "\u{3000}z",
];

fn gen_value(rng: &mut Rng) -> String {
  if rng.chance(75) {
    rng.pick(&VALUES).to_string()
  } else {
    let alpha = ["a", "/", ".", "é", "😀", " ", "\"", "'", "*", "@", "\n", "=", ">"];
    (0..rng.range(0, 6)).map(|_| *rng.pick(&alpha)).collect()
  }
}

fn gen_quoted(rng: &mut Rng) -> String {
  let v = gen_value(rng);
  match rng.below(10) {
    0 | 1 | 2 | 3 => format!("\"{}\"", v),
    4 | 5 => format!("'{}'", v),
    6 => format!("\"{}'", v),
    7 => v,
    8 => format!("\"{}", v),
    _ => format!("'{}\" tail'", v),
  }
}

fn gen_comment_text(rng: &mut Rng, id: usize) -> String {
  if rng.chance(5) {
    // unstructured
    let alpha = [
      "/", "<", "reference", " ", "path", "types", "=", "\"", "'", "@", "#", "*", "/>", "x", "\n", "sourceMappingURL",
      "ts-types", "deno-types", "é",
    ];
    return (0..rng.range(0, 10)).map(|_| *rng.pick(&alpha)).collect();
  }
  let kw = mangle_kw(rng, KEYWORDS[id]);
  let mut s = String::new();
  match id {
    0 | 1 | 2 => {
      // inside a triple-slash reference (or not)
      match rng.below(6) {
        0 => {}
        1 => s.push_str("/ <reference"),
        2 => s.push_str("/<REFERENCE lib=\"x\""),
        3 => s.push_str("/ <reference types='t'"),
        4 => s.push_str("é😀"),
        _ => s.push_str("/ <reference no-default-lib=\"true\""),
      }
      if !rng.chance(8) {
        s.push_str(&ws_run(rng, 1, 2));
      }
      s.push_str(&kw);
      s.push_str(&ws_run(rng, 0, 2));
      if !rng.chance(6) {
        s.push('=');
      }
      s.push_str(&ws_run(rng, 0, 2));
      s.push_str(&gen_quoted(rng));
      match rng.below(5) {
        0 => {}
        1 => s.push_str(" />"),
        2 => s.push_str("/>"),
        3 => {
          // a second candidate: leftmost must win
          s.push(' ');
          let other = rng.below(3);
          s.push_str(&mangle_kw(rng, KEYWORDS[other]));
          s.push('=');
          s.push_str(&gen_quoted(rng));
          s.push_str(" />");
        }
        _ => s.push_str(" resolution-mode=\"require\" />"),
      }
    }
    3 | 4 => {
      match rng.below(7) {
        0 => {}
        1 => s.push_str("* "),
        2 => s.push_str("*\n * "),
        3 => s.push_str(&ws_run(rng, 0, 3)),
        4 => s.push_str("**\u{a0}*"),
        5 => s.push_str("x "),
        _ => s.push(' '),
      }
      s.push_str(&kw);
      if id == 3 && rng.chance(10) {
        s.push_str("Types");
      }
      s.push_str(&ws_run(rng, 0, 2));
      s.push_str(&gen_value(rng));
      if rng.chance(50) {
        s.push_str(&ws_run(rng, 1, 2));
        s.push_str(*rng.pick(&["", "*", "more", "@jsxRuntime automatic"]));
      }
    }
    5 => {
      match rng.below(8) {
        0 | 1 | 2 => s.push('#'),
        3 | 4 => s.push('@'),
        5 => s.push_str(" #"),
        6 => {}
        _ => s.push_str("##"),
      }
      s.push_str(&ws_run(rng, 0, 2));
      s.push_str(&kw);
      s.push_str(&ws_run(rng, 0, 2));
      if !rng.chance(6) {
        s.push('=');
      }
      s.push_str(&ws_run(rng, 0, 2));
      s.push_str(*rng.pick(&[
        "a.js.map",
        "data:application/json;base64,e30=",
        "./π.map",
        "",
        "a b",
        "\"q.map\"",
        "=x",
        "😀.map\ntrailing",
      ]));
      s.push_str(&ws_run(rng, 0, 1));
    }
    6 | 7 | 8 => {
      match rng.below(7) {
        0 | 1 | 2 => s.push_str(&ws_run(rng, 0, 2)),
        3 => s.push_str("* "),
        4 => s.push_str("x"),
        _ => {}
      }
      s.push_str(&kw);
      s.push_str(&ws_run(rng, 0, 2));
      if !rng.chance(6) {
        s.push('=');
      }
      s.push_str(&ws_run(rng, 0, 2));
      s.push_str(&gen_quoted(rng));
      if rng.chance(40) {
        s.push_str(*rng.pick(&[" ", " trailing", "\"", "'x'", "\n"]));
      }
    }
    _ => {
      match rng.below(6) {
        0 => {}
        1 => s.push_str(" /"),
        _ => s.push('/'),
      }
      s.push_str(&ws_run(rng, 0, 2));
      s.push_str(&kw);
      if !rng.chance(10) {
        s.push_str(&ws_run(rng, 1, 2));
      }
      s.push_str(*rng.pick(&["path=\"./a.ts\"", "types='x'", "", "lib=\"es2015\"", "é"]));
      s.push_str(*rng.pick(&[" />", "/>", " / >", "", "\n/>", " >", " /\u{a0}>"]));
    }
  }
  s
}

fn real_recognise(id: usize, t: &str) -> Sx {
  fn m(x: Option<regex::Match<'_>>, ql: bool) -> Sx {
    match x {
      Some(m) => Sx::atoms([m.start() as u64, m.end() as u64, ql as u64]),
      None => Sx::L(vec![]),
    }
  }
  match id {
    0 => m(find_path_reference(t), false),
    1 => m(find_types_reference(t), false),
    2 => m(find_resolution_mode(t), false),
    // the call sites of these three pass is_specifier_quoteless = true
    3 => m(find_jsx_import_source(t), true),
    4 => m(find_jsx_import_source_types(t), true),
    5 => m(find_source_mapping_url(t), true),
    6 => m(find_ts_self_types(t), false),
    7 => m(find_ts_types(t), false),
    8 => match find_deno_types(t) {
      Some(d) => Sx::atoms([d.range.start as u64, d.range.end as u64, d.is_quoteless as u64]),
      None => Sx::L(vec![]),
    },
    _ => Sx::L(vec![Sx::b(is_comment_triple_slash_reference(t))]),
  }
}

fn recogniser_case(rng: &mut Rng, id: usize, n: usize) -> Case {
  let mut texts = vec![];
  let mut obs = vec![];
  let mut hits = 0u64;
  let mut sample = vec![];
  for _ in 0..n {
    let t = gen_comment_text(rng, id);
    let r = real_recognise(id, &t);
    let hit = match &r {
      Sx::L(l) => !l.is_empty() && *l != vec![Sx::A(0)],
      _ => false,
    };
    if hit {
      hits += 1;
    }
    if sample.len() < 3 {
      sample.push(show(&t));
    }
    texts.push(chars_sx(&t));
    obs.push(r);
  }
  Case {
    input: Sx::L(vec![Sx::A(1), Sx::A(id as u64), Sx::L(texts)]),
    obs: Sx::L(obs),
    meta: serde_json::json!({"kind": "recogniser", "function": PRAGMA_NAMES[id], "texts": n, "first": sample}),
    nontrivial: hits > 0 && hits < n as u64,
    dist: vec![
      (format!("regex_texts_{}", PRAGMA_NAMES[id]), n as u64),
      (format!("regex_matches_{}", PRAGMA_NAMES[id]), hits),
    ],
    direct_violations: vec![],
  }
}

// ------------------------------------------------------------------ kind 2

#[derive(Clone)]
pub struct SourceCase {
  pub origin: String,
  pub specifier: String,
  pub headers: Option<HashMap<String, String>>,
  pub bytes: Vec<u8>,
  /// what the generator planted: (cat, sub, text)
  pub expected: Option<Vec<(u64, u64, String)>>,
}

fn is_js_like(m: MediaType) -> bool {
  matches!(
    m,
    MediaType::JavaScript
      | MediaType::Jsx
      | MediaType::Mjs
      | MediaType::Cjs
      | MediaType::TypeScript
      | MediaType::Mts
      | MediaType::Cts
      | MediaType::Dts
      | MediaType::Dmts
      | MediaType::Dcts
      | MediaType::Tsx
  )
}

fn static_kind_code(k: StaticDependencyKind) -> u64 {
  match k {
    StaticDependencyKind::Import => 0,
    StaticDependencyKind::ImportDefer => 1,
    StaticDependencyKind::ImportSource => 2,
    StaticDependencyKind::ImportType => 3,
    StaticDependencyKind::ImportEquals => 4,
    StaticDependencyKind::Export => 5,
    StaticDependencyKind::ExportType => 6,
    StaticDependencyKind::ExportEquals => 7,
    StaticDependencyKind::MaybeTsModuleAugmentation => 8,
  }
}
fn dynamic_kind_code(k: DynamicDependencyKind) -> u64 {
  match k {
    DynamicDependencyKind::Import => 0,
    DynamicDependencyKind::ImportDefer => 1,
    DynamicDependencyKind::ImportSource => 2,
    DynamicDependencyKind::Require => 3,
  }
}

/// 0 none, 1 exactly {type: "json"}, 2 unknown, 3 other known, 4 known and empty
fn attr_code(a: &ImportAttributes) -> u64 {
  match a {
    ImportAttributes::None => 0,
    ImportAttributes::Unknown => 2,
    ImportAttributes::Known(m) => {
      if m.is_empty() {
        4
      } else if m.len() == 1 && m.get("type") == Some(&ImportAttribute::Known("json".to_string())) {
        1
      } else {
        3
      }
    }
  }
}

struct Item {
  cat: u64,
  sub: u64,
  text: String,
  range: PositionRange,
}

fn flatten_info(info: &ModuleInfo) -> Vec<Item> {
  let mut items = vec![];
  for d in &info.dependencies {
    match d {
      DependencyDescriptor::Static(s) => {
        items.push(Item {
          cat: 0,
          sub: static_kind_code(s.kind) + 16 * attr_code(&s.import_attributes),
          text: s.specifier.clone(),
          range: s.specifier_range,
        });
        if let Some(t) = &s.types_specifier {
          items.push(Item { cat: 4, sub: 0, text: t.text.clone(), range: t.range });
        }
      }
      DependencyDescriptor::Dynamic(d) => {
        let sub = dynamic_kind_code(d.kind) + 16 * attr_code(&d.import_attributes);
        match &d.argument {
          DynamicArgument::String(s) => items.push(Item { cat: 1, sub, text: s.clone(), range: d.argument_range }),
          DynamicArgument::Template(parts) => {
            let mut t = String::new();
            for p in parts {
              match p {
                DynamicTemplatePart::String { value } => t.push_str(value),
                DynamicTemplatePart::Expr => t.push('\u{1}'),
              }
            }
            items.push(Item { cat: 2, sub, text: t, range: d.argument_range })
          }
          DynamicArgument::Expr => items.push(Item { cat: 3, sub, text: String::new(), range: d.argument_range }),
        }
        if let Some(t) = &d.types_specifier {
          items.push(Item { cat: 4, sub: 0, text: t.text.clone(), range: t.range });
        }
      }
    }
  }
  for r in &info.ts_references {
    match r {
      TypeScriptReference::Path(s) => items.push(Item { cat: 5, sub: 0, text: s.text.clone(), range: s.range }),
      TypeScriptReference::Types { specifier, resolution_mode } => items.push(Item {
        cat: 6,
        sub: match resolution_mode {
          None => 0,
          Some(TypeScriptTypesResolutionMode::Import) => 1,
          Some(TypeScriptTypesResolutionMode::Require) => 2,
        },
        text: specifier.text.clone(),
        range: specifier.range,
      }),
    }
  }
  if let Some(s) = &info.self_types_specifier {
    items.push(Item { cat: 7, sub: 0, text: s.text.clone(), range: s.range });
  }
  if let Some(s) = &info.jsx_import_source {
    items.push(Item { cat: 8, sub: 0, text: s.text.clone(), range: s.range });
  }
  if let Some(s) = &info.jsx_import_source_types {
    items.push(Item { cat: 9, sub: 0, text: s.text.clone(), range: s.range });
  }
  for j in &info.jsdoc_imports {
    items.push(Item {
      cat: 10,
      sub: match j.resolution_mode {
        None => 0,
        Some(TypeScriptTypesResolutionMode::Import) => 1,
        Some(TypeScriptTypesResolutionMode::Require) => 2,
      },
      text: j.specifier.text.clone(),
      range: j.specifier.range,
    });
  }
  if let Some(s) = &info.source_map_url {
    items.push(Item { cat: 11, sub: 0, text: s.text.clone(), range: s.range });
  }
  items
}

fn range_sx(r: &PositionRange) -> Sx {
  Sx::atoms([r.start.line as u64, r.start.character as u64, r.end.line as u64, r.end.character as u64])
}

const BAD_OFFSET: u64 = 999_999_999;

/// byte offsets of a reported range according to the REAL inverse map
/// (PositionRange::as_source_range -> SourceTextInfo::loc_to_source_pos)
fn real_offsets(r: &PositionRange, ti: &SourceTextInfo) -> (u64, u64) {
  let start = ti.range().start;
  catch(|| {
    let sr = r.as_source_range(ti);
    ((sr.start - start) as u64, (sr.end - start) as u64)
  })
  .unwrap_or((BAD_OFFSET, BAD_OFFSET))
}

/// the cooked value of a string / no-substitution template literal according to the REAL parser
fn cook_literal(raw: &str) -> Option<String> {
  use deno_ast::swc::ast::*;
  let text = format!("({}\n);", raw);
  let ps = catch(|| {
    deno_ast::parse_program(deno_ast::ParseParams {
      specifier: ModuleSpecifier::parse("file:///cook.ts").unwrap(),
      text: Arc::from(text.as_str()),
      media_type: MediaType::TypeScript,
      capture_tokens: false,
      scope_analysis: false,
      maybe_syntax: None,
    })
  })?
  .ok()?;
  let program = ps.program();
  let stmt: &Stmt = match &*program {
    Program::Script(s) => s.body.first()?,
    Program::Module(m) => match m.body.first()? {
      ModuleItem::Stmt(s) => s,
      _ => return None,
    },
  };
  let Stmt::Expr(es) = stmt else { return None };
  let Expr::Paren(p) = &*es.expr else { return None };
  match &*p.expr {
    Expr::Lit(Lit::Str(s)) => Some(s.value.to_string_lossy().into_owned()),
    Expr::Tpl(t) if t.quasis.len() == 1 && t.exprs.is_empty() => {
      t.quasis[0].cooked.as_ref().map(|c| c.to_string_lossy().into_owned())
    }
    _ => None,
  }
}

struct RealComment {
  block: bool,
  start: usize,
  end: usize,
  text: String,
}

fn real_comments(url: &ModuleSpecifier, text: &Arc<str>, media: MediaType) -> Option<Vec<RealComment>> {
  let ps = catch(|| {
    deno_ast::parse_program(deno_ast::ParseParams {
      specifier: url.clone(),
      text: text.clone(),
      media_type: media,
      capture_tokens: false,
      scope_analysis: false,
      maybe_syntax: None,
    })
  })?
  .ok()?;
  let start = ps.text_info_lazy().range().start;
  let mut v: Vec<RealComment> = ps
    .comments()
    .get_vec()
    .iter()
    .map(|c| RealComment {
      block: c.kind == deno_ast::swc::common::comments::CommentKind::Block,
      start: c.start() - start,
      end: c.end() - start,
      text: c.text.to_string(),
    })
    .collect();
  v.sort_by_key(|c| c.start);
  Some(v)
}

fn analysis_case(sc: &SourceCase) -> Case {
  let url = ModuleSpecifier::parse(&sc.specifier).unwrap();
  let (media, _) = resolve_media_type_and_charset_from_headers(&url, sc.headers.as_ref());
  let mut dist: Vec<(String, u64)> = vec![(format!("src_{}", sc.origin), 1), (format!("media_{:?}", media), 1)];
  let skipped = |why: &str, mut dist: Vec<(String, u64)>| {
    dist.push((format!("skipped_{}", why), 1));
    Case {
      input: Sx::L(vec![Sx::A(1), Sx::A(0), Sx::L(vec![])]),
      obs: Sx::L(vec![]),
      meta: serde_json::json!({"kind": "analysis", "skipped": why, "specifier": sc.specifier, "origin": sc.origin}),
      nontrivial: false,
      dist,
      direct_violations: vec![],
    }
  };
  if !is_js_like(media) {
    return skipped("not_js", dist);
  }
  // the REAL graph module, from bytes (decoding strips a BOM)
  let analyzer = deno_graph::ast::DefaultModuleAnalyzer;
  let parsed = catch(|| {
    futures::executor::block_on(parse_module(ParseModuleOptions {
      graph_kind: GraphKind::All,
      specifier: url.clone(),
      maybe_headers: sc.headers.clone(),
      mtime: None,
      content: Arc::from(sc.bytes.clone()),
      file_system: &NullFileSystem,
      jsr_url_provider: Default::default(),
      maybe_resolver: None,
      module_analyzer: &analyzer,
    }))
  });
  // the text the ranges refer to
  let text: Arc<str> = match &parsed {
    Some(Ok(m)) => match m.source() {
      Some(t) => t.clone(),
      None => return skipped("no_text", dist),
    },
    Some(Err(_)) => return skipped("parse_error", dist),
    None => {
      // analysis panicked: decode as the graph does (UTF-8, BOM stripped)
      let s = String::from_utf8_lossy(&sc.bytes).into_owned();
      Arc::from(s.strip_prefix('\u{feff}').unwrap_or(&s))
    }
  };
  let comments = match real_comments(&url, &text, media) {
    Some(c) => c,
    None => return skipped("parse_error", dist),
  };
  let info = catch(|| ParserModuleAnalyzer::default().analyze_sync(&url, text.clone(), media));
  let panicked = !matches!((&parsed, &info), (Some(_), Some(_)));
  let items: Vec<Item> = match &info {
    Some(Ok(i)) => flatten_info(i),
    Some(Err(_)) => return skipped("parse_error", dist),
    None => vec![],
  };
  let ti = SourceTextInfo::new(text.clone());
  let tstart = ti.range().start;

  let mut items_in = vec![];
  let mut items_obs = vec![];
  let mut item_offsets = vec![];
  for it in &items {
    let (so, eo) = real_offsets(&it.range, &ti);
    item_offsets.push((so, eo));
    let in_text = so <= eo && (eo as usize) <= text.len() && text.is_char_boundary(so as usize) && text.is_char_boundary(eo as usize);
    // literal data (cats 0, 1): the raw literal cut out with the REAL inverse, cooked by the REAL parser
    let raw = if it.cat <= 1 && in_text {
      let raw = &text[so as usize..eo as usize];
      Sx::L(vec![chars_sx(raw), Sx::opt(cook_literal(raw).map(|c| chars_sx(&c)))])
    } else {
      Sx::L(vec![])
    };
    // pragma items: the real comment they sit in
    let is_pragma = matches!(it.cat, 4 | 5 | 6 | 7 | 8 | 9 | 11);
    let cm = if is_pragma {
      // the comment whose text region is nearest to the reported start (reported offsets may be
      // shifted by a few bytes when the comment delimiter is not two characters long)
      comments.iter().find(|c| (c.start as u64) <= so + 4 && so <= c.end as u64 + 4)
    } else {
      None
    };
    let cm_sx = match cm {
      Some(c) => Sx::L(vec![Sx::b(c.block), Sx::A(c.start as u64), chars_sx(&c.text)]),
      None => Sx::L(vec![]),
    };
    items_in.push(Sx::L(vec![Sx::A(it.cat), Sx::A(it.sub), chars_sx(&it.text), range_sx(&it.range), raw, cm_sx]));
    let reported = if is_pragma && cm.is_some() {
      Sx::L(vec![Sx::A(it.cat), range_sx(&it.range), chars_sx(&it.text), Sx::A(if it.cat == 6 { it.sub } else { 0 })])
    } else {
      Sx::L(vec![])
    };
    items_obs.push(Sx::L(vec![Sx::A(so), Sx::A(eo), reported, Sx::judge(true)]));
    dist.push((format!("items_cat{}", it.cat), 1));
  }

  // graph level: the real dependency map, and position lookups with the REAL includes
  let mut deps_in = vec![];
  let mut probes_in = vec![];
  let mut answers = vec![];
  if let Some(Ok(m)) = &parsed {
    let deps = m.dependencies();
    for (k, (_, d)) in deps.iter().enumerate() {
      let mut ranges: Vec<PositionRange> = d.imports.iter().map(|i| i.specifier_range.range).collect();
      let tr = d.maybe_type.maybe_range().map(|r| r.range);
      deps_in.push(Sx::L(vec![
        Sx::A(k as u64),
        Sx::L(ranges.iter().map(range_sx).collect()),
        Sx::opt(tr.as_ref().map(range_sx)),
      ]));
      if let Some(r) = tr {
        ranges.push(r);
      }
      for r in ranges {
        let (so, eo) = real_offsets(&r, &ti);
        if so == BAD_OFFSET || eo as usize > text.len() || so > eo {
          continue;
        }
        let mut offs = vec![so, (so + eo) / 2, eo.saturating_sub(1).max(so), eo];
        offs.dedup();
        for o in offs {
          let p = Position::from_source_pos(tstart + o as usize, &ti);
          // first dependency of the map whose includes() accepts the position
          let ans = deps.values().position(|d2| d2.includes(p).is_some());
          let a = ans.map(|x| x as u64 + 1).unwrap_or(0);
          probes_in.push(Sx::L(vec![Sx::A(k as u64), Sx::atoms([p.line as u64, p.character as u64]), Sx::A(a)]));
          answers.push(a);
        }
      }
    }
    dist.push(("graph_deps".into(), deps.len() as u64));
    dist.push(("lookup_probes".into(), answers.len() as u64));
  }

  let expected_in = match &sc.expected {
    Some(e) => Sx::L(vec![Sx::L(e.iter().map(|(c, s, t)| Sx::L(vec![Sx::A(*c), Sx::A(*s), chars_sx(t)])).collect())]),
    None => Sx::L(vec![]),
  };
  if panicked {
    dist.push(("analysis_panicked".into(), 1));
  }
  let input = Sx::L(vec![
    Sx::A(2),
    chars_sx(&text),
    Sx::b(panicked),
    Sx::atoms(comments.iter().map(|c| c.start as u64)),
    Sx::L(items_in),
    expected_in,
    Sx::L(deps_in),
    Sx::L(probes_in),
  ]);
  let mut obs = vec![
    Sx::L(vec![Sx::judge(true)]),
    Sx::L(vec![Sx::judge(true)]),
    Sx::L(vec![Sx::judge(true)]),
    Sx::L(vec![Sx::judge(true), Sx::atoms(answers.iter().cloned()), Sx::judge(true)]),
  ];
  obs.extend(items_obs);
  let nontrivial = items.len() >= 2
    && (text.chars().any(|c| c.len_utf8() > 1) || text.contains('\n'))
    && items.iter().any(|i| i.range.start.character > 0 || i.range.start.line > 0);
  dist.push(("items".into(), items.len() as u64));
  dist.push(("comments".into(), comments.len() as u64));
  if text.contains("\r\n") {
    dist.push(("src_crlf".into(), 1));
  }
  if sc.bytes.starts_with(&[0xef, 0xbb, 0xbf]) {
    dist.push(("src_bom".into(), 1));
  }
  if text.chars().any(|c| c.len_utf8() == 4) {
    dist.push(("src_astral".into(), 1));
  }
  let shown: String = show(&text.chars().take(600).collect::<String>());
  Case {
    input,
    obs: Sx::L(obs),
    meta: serde_json::json!({"kind": "analysis", "origin": sc.origin, "specifier": sc.specifier, "source": shown,
      "expected": sc.expected.as_ref().map(|e| e.len())}),
    nontrivial,
    dist,
    direct_violations: vec![],
  }
}

// ---- corpus: every module source embedded in tests/specs/**/*.txt (format of tests/helpers / specs_test.rs)

fn walk_txt(dir: &std::path::Path, out: &mut Vec<std::path::PathBuf>) {
  let Ok(rd) = std::fs::read_dir(dir) else { return };
  let mut es: Vec<_> = rd.filter_map(|e| e.ok()).map(|e| e.path()).collect();
  es.sort();
  for p in es {
    if p.is_dir() {
      walk_txt(&p, out);
    } else if p.extension().map(|e| e == "txt").unwrap_or(false) {
      out.push(p);
    }
  }
}

pub fn load_corpus() -> Vec<SourceCase> {
  let mut files = vec![];
  walk_txt(std::path::Path::new("/repo/tests/specs"), &mut files);
  let mut out = vec![];
  for f in files {
    let Ok(text) = std::fs::read_to_string(&f) else { continue };
    let mut text = text.as_str();
    if text.starts_with("~~ ") {
      if let Some(end) = text.find(" ~~\n") {
        text = &text[end + 4..];
      }
    }
    let mut cur: Option<(String, Option<HashMap<String, String>>, String, bool)> = None;
    let mut done = vec![];
    for line in text.split('\n') {
      if let Some(spec_line) = line.strip_prefix("# ") {
        if let Some(c) = cur.take() {
          done.push(c);
        }
        if spec_line.contains("<=") {
          cur = Some((String::new(), None, String::new(), false));
        } else {
          cur = Some((spec_line.to_string(), None, String::new(), true));
        }
      } else if let Some(h) = line.strip_prefix("HEADERS: ") {
        if let Some(c) = cur.as_mut() {
          c.1 = serde_json::from_str(h).ok();
        }
      } else if let Some(c) = cur.as_mut() {
        if !c.2.is_empty() {
          c.2.push('\n');
        }
        c.2.push_str(line);
      }
    }
    if let Some(c) = cur.take() {
      done.push(c);
    }
    for (spec, headers, content, inline) in done {
      if !inline || spec == "output" || spec == "workspace_members" || spec == "lockfile_jsr_packages" || spec.is_empty() {
        continue;
      }
      let s = spec.strip_prefix("cache:").unwrap_or(&spec);
      let url = if !s.starts_with("http:") && !s.starts_with("https:") && !s.starts_with("file:") {
        format!("file:///{}", s)
      } else {
        s.to_string()
      };
      if ModuleSpecifier::parse(&url).is_err() {
        continue;
      }
      out.push(SourceCase {
        origin: "corpus".into(),
        specifier: url,
        headers,
        bytes: content.into_bytes(),
        expected: None,
      });
    }
  }
  out
}

// ---- generated programs

#[derive(Clone, Copy, PartialEq)]
enum Ext {
  Js,
  Mjs,
  Cjs,
  Jsx,
  Ts,
  Mts,
  Tsx,
  Dts,
}

impl Ext {
  fn name(self) -> &'static str {
    match self {
      Ext::Js => "js",
      Ext::Mjs => "mjs",
      Ext::Cjs => "cjs",
      Ext::Jsx => "jsx",
      Ext::Ts => "ts",
      Ext::Mts => "mts",
      Ext::Tsx => "tsx",
      Ext::Dts => "d.ts",
    }
  }
  fn is_ts(self) -> bool {
    matches!(self, Ext::Ts | Ext::Mts | Ext::Tsx | Ext::Dts)
  }
  fn is_jsx(self) -> bool {
    matches!(self, Ext::Jsx | Ext::Tsx)
  }
}

struct Gen<'a> {
  rng: &'a mut Rng,
  ext: Ext,
  nl: &'static str,
  out: String,
  expected: Vec<(u64, u64, String)>,
  counter: usize,
  /// free-form comment bodies may contain pragma look-alikes (no expectations then)
  adversarial: bool,
}

const SAFE_WORDS: [&str; 14] = [
  "note", "überprüfen", "данные", "日本語", "😀", "𝒳𝒴", "e\u{301}", "naïve", "x1", "TODO", "…", "ok.", "a-b", "ça",
];

impl<'a> Gen<'a> {
  fn words(&mut self) -> String {
    let n = self.rng.range(1, 4);
    (0..n).map(|_| *self.rng.pick(&SAFE_WORDS)).collect::<Vec<_>>().join(" ")
  }

  fn adversarial_body(&mut self) -> String {
    let frags = [
      "@ts-types",
      "@deno-types=",
      "@ts-self-types=\"./nope.d.ts",
      "@jsxImportSource",
      "sourceMappingURL=",
      "<reference path=",
      "import(\"./nope.js\")",
      "{import('./nope2.js')",
      "@import x from",
      "\"./q.js\"",
      "=",
      "*",
      "é😀",
      " ",
    ];
    let n = self.rng.range(1, 4);
    (0..n).map(|_| *self.rng.pick(&frags)).collect::<Vec<_>>().join(" ")
  }

  /// comments / blank lines that carry no dependency; always ends at a line start
  fn trivia(&mut self) {
    for _ in 0..self.rng.below(3) {
      let body = if self.adversarial && self.rng.chance(40) { self.adversarial_body() } else { self.words() };
      match self.rng.below(5) {
        0 => {
          self.out.push_str(self.nl);
        }
        1 => {
          self.out.push_str("// ");
          self.out.push_str(&body);
          self.out.push_str(self.nl);
        }
        2 => {
          self.out.push_str("/* ");
          self.out.push_str(&body);
          self.out.push_str(" */");
          self.out.push_str(self.nl);
        }
        3 => {
          let w2 = self.words();
          self.out.push_str("/* ");
          self.out.push_str(&body);
          self.out.push_str(self.nl);
          self.out.push_str("   ");
          self.out.push_str(&w2);
          self.out.push_str(" */");
          self.out.push_str(self.nl);
        }
        _ => {
          // stays on the line of the next statement: shifts its columns
          self.out.push_str("/* ");
          self.out.push_str(&body);
          self.out.push_str(" */ ");
        }
      }
    }
  }

  /// (literal as written, cooked value)
  fn spec_literal(&mut self) -> (String, String) {
    self.counter += 1;
    let n = self.counter;
    let base = match self.rng.below(9) {
      0 | 1 | 2 => format!("./m{}.ts", n),
      3 => format!("../lib/módulo{}.js", n),
      4 => format!("./😀{}.mjs", n),
      5 => format!("https://example.com/x{}.ts", n),
      6 => format!("npm:pkg{}@1", n),
      7 => format!("./a b{}.js", n),
      _ => format!("./π/{}", n),
    };
    let q = if self.rng.chance(50) { '"' } else { '\'' };
    let mut raw = String::new();
    raw.push(q);
    let escape_at = if self.rng.chance(25) { Some(self.rng.below(base.chars().count())) } else { None };
    for (i, c) in base.chars().enumerate() {
      if Some(i) == escape_at {
        match self.rng.below(5) {
          0 if (c as u32) < 256 => raw.push_str(&format!("\\x{:02x}", c as u32)),
          1 if (c as u32) < 0x10000 => raw.push_str(&format!("\\u{:04X}", c as u32)),
          2 => raw.push_str(&format!("\\u{{{:x}}}", c as u32)),
          3 => {
            // line continuation: contributes nothing to the cooked value
            raw.push('\\');
            raw.push_str(self.nl);
            raw.push(c);
          }
          _ => {
            raw.push('\\');
            raw.push(c);
            if c.is_ascii_alphanumeric() {
              // \m etc. would change meaning for some letters: undo
              raw.pop();
              raw.pop();
              raw.push(c);
            }
          }
        }
      } else {
        raw.push(c);
      }
    }
    raw.push(q);
    (raw, base)
  }

  fn pragma_spec(&mut self) -> String {
    self.counter += 1;
    match self.rng.below(4) {
      0 => format!("./t{}.d.ts", self.counter),
      1 => format!("./types/π{}.d.ts", self.counter),
      2 => format!("https://example.com/t{}.d.ts", self.counter),
      _ => format!("./😀/t{}.d.ts", self.counter),
    }
  }

  /// a types pragma comment; returns (comment text to place directly before the node, must it be inline)
  fn types_pragma(&mut self, inline_only: bool) -> String {
    let t = self.pragma_spec();
    self.expected.push((4, 0, t.clone()));
    let body = match self.rng.below(5) {
      0 => format!("@ts-types=\"{}\"", t),
      1 => format!(" @ts-types = '{}' ", t),
      2 => format!(" @deno-types=\"{}\"", t),
      3 => format!("@DENO-TYPES={}", t),
      _ => format!(" @deno-types={} ", t),
    };
    if !inline_only && self.rng.chance(50) {
      format!("//{}{}", body, self.nl)
    } else {
      format!("/*{}*/ ", body)
    }
  }

  fn stmt(&mut self) {
    let ts = self.ext.is_ts();
    let dts = self.ext == Ext::Dts;
    let script = self.ext == Ext::Cjs;
    let js_untyped = !ts;
    loop {
      let form = self.rng.below(37);
      let pragma = self.rng.chance(22);
      match form {
        // ---- static imports / exports
        0..=7 if !script => {
          let (raw, cooked) = self.spec_literal();
          let (text, sub, side): (String, u64, bool) = match form {
            0 => (format!("import {};", raw), 0, true),
            1 => (format!("import d{} from {};", self.counter, raw), 0, false),
            2 => (format!("import * as ns{} from {};", self.counter, raw), 0, false),
            3 => (format!("import {{ a as b{} }} from {} with {{ type: \"json\" }};", self.counter, raw), 16, false),
            4 => (format!("export * from {};", raw), 5, false),
            5 => (format!("export * as e{} from {};", self.counter, raw), 5, false),
            6 => (format!("export {{ x as y{} }} from {};", self.counter, raw), 5, false),
            _ => (format!("export {{ default as z{} }} from {} with {{ type: 'json' }};", self.counter, raw), 5 + 16, false),
          };
          let _ = side;
          if pragma {
            let p = self.types_pragma(false);
            self.out.push_str(&p);
          }
          self.out.push_str(&text);
          self.out.push_str(self.nl);
          self.expected.push((0, sub, cooked));
          return;
        }
        8..=10 if ts => {
          let (raw, cooked) = self.spec_literal();
          let (text, sub) = match form {
            8 => (format!("import type {{ T{} }} from {};", self.counter, raw), 3),
            9 => (format!("export type {{ U{} }} from {};", self.counter, raw), 6),
            _ => (format!("export type * from {};", raw), 6),
          };
          if pragma {
            let p = self.types_pragma(false);
            self.out.push_str(&p);
          }
          self.out.push_str(&text);
          self.out.push_str(self.nl);
          self.expected.push((0, sub, cooked));
          return;
        }
        11..=13 if ts => {
          let (raw, cooked) = self.spec_literal();
          let (text, sub) = match form {
            11 => (format!("import r{} = require({});", self.counter, raw), 4),
            12 => (format!("export import s{} = require({});", self.counter, raw), 7),
            _ => (format!("import type t{} = require({});", self.counter, raw), 3),
          };
          if pragma {
            let p = self.types_pragma(false);
            self.out.push_str(&p);
          }
          self.out.push_str(&text);
          self.out.push_str(self.nl);
          self.expected.push((0, sub, cooked));
          return;
        }
        // ---- import types
        14 | 15 if ts => {
          let (raw, cooked) = self.spec_literal();
          let (raw2, cooked2) = self.spec_literal();
          let p = if pragma { self.types_pragma(true) } else { String::new() };
          let kw = if dts { "export declare" } else { "export" };
          let _ = kw;
          let text = if form == 14 {
            self.expected.push((0, 3, cooked));
            format!("export type A{} = {}import({}).Foo;", self.counter, p, raw)
          } else {
            self.expected.push((0, 3, cooked));
            self.expected.push((0, 3, cooked2));
            format!("export type B{} = Array<{}import({}).X<typeof import({})>>;", self.counter, p, raw, raw2)
          };
          self.out.push_str(&text);
          self.out.push_str(self.nl);
          return;
        }
        16 if ts => {
          let (raw, cooked) = self.spec_literal();
          self.out.push_str(&format!("declare module {} {{ export const v{}: number; }}", raw, self.counter));
          self.out.push_str(self.nl);
          self.expected.push((0, 8, cooked));
          return;
        }
        // ---- dynamic
        17..=24 if !dts => {
          let (raw, cooked) = self.spec_literal();
          let p = if pragma { self.types_pragma(true) } else { String::new() };
          let c = self.counter;
          let text = match form {
            17 => {
              self.expected.push((1, 0, cooked));
              format!("{}import({}).then((m) => m);", p, raw)
            }
            18 => {
              self.expected.push((1, 16, cooked));
              format!("const v{} = {}import({}, {{ with: {{ type: \"json\" }} }});", c, p, raw)
            }
            19 => {
              // no-substitution template: a String argument; the range has the backticks
              // escapes are cooked as in string literals; an escaped backtick / dollar and a line
              // continuation are specific to templates
              let inner: String = cooked.chars().filter(|ch| *ch != '`' && *ch != '$').collect();
              let mut written = String::new();
              let mut value = String::new();
              let escape_at = if self.rng.chance(40) { Some(self.rng.below(inner.chars().count().max(1))) } else { None };
              for (i, ch) in inner.chars().enumerate() {
                if Some(i) == escape_at {
                  match self.rng.below(6) {
                    0 if (ch as u32) < 256 => written.push_str(&format!("\\x{:02x}", ch as u32)),
                    1 if (ch as u32) < 0x10000 => written.push_str(&format!("\\u{:04X}", ch as u32)),
                    2 => written.push_str(&format!("\\u{{{:x}}}", ch as u32)),
                    3 => {
                      written.push_str("\\`");
                      value.push('`');
                      written.push(ch);
                    }
                    4 => {
                      written.push_str("\\$");
                      value.push('$');
                      written.push(ch);
                    }
                    _ => {
                      written.push('\\');
                      written.push_str(self.nl);
                      written.push(ch);
                    }
                  }
                  value.push(ch);
                } else {
                  written.push(ch);
                  value.push(ch);
                }
              }
              self.expected.push((1, 0, value));
              format!("function f{}() {{ return {}import(`{}`); }}", c, p, written)
            }
            20 => {
              self.expected.push((2, 0, format!("./d{}/\u{1}.js", c)));
              format!("const w{} = (x) => {}import(`./d{}/${{x}}.js`);", c, p, c)
            }
            21 => {
              self.expected.push((2, 0, format!("{}\u{1}", cooked)));
              format!("async function g{}(x) {{ try {{ await {}import({} + x); }} catch {{}} }}", c, p, raw)
            }
            22 => {
              // a third of these carry another dynamic import / require inside the argument: both are
              // dependencies, the inner one a literal, the outer one an expression or a template
              match self.rng.below(9) {
                0 => {
                  self.expected.push((1, 0, cooked));
                  self.expected.push((3, 0, String::new()));
                  format!("const u{} = async (x) => {}import((await import({})).entry);", c, p, raw)
                }
                1 => {
                  self.expected.push((1, 3, cooked));
                  self.expected.push((3, 3, String::new()));
                  format!("const u{} = (x) => {}require(require({}).join(x, \"y\"));", c, p, raw)
                }
                2 => {
                  self.expected.push((1, 0, cooked));
                  self.expected.push((2, 0, format!("./d{}/\u{1}.js", c)));
                  format!("const u{} = async (x) => {}import(`./d{}/${{(await import({})).name}}.js`);", c, p, c, raw)
                }
                _ => {
                  self.expected.push((3, 0, String::new()));
                  format!("const u{} = (x) => {}import(x);", c, p)
                }
              }
            }
            23 => {
              self.expected.push((1, 3, cooked));
              format!("const q{} = {}require({});", c, p, raw)
            }
            _ => {
              self.expected.push((1, 3, cooked));
              // a comment on the line of the `{` would be a TRAILING comment of the brace (swc), so break the line
              format!("if (globalThis.k{}) {{{}  {}require({}); }}", c, self.nl, p, raw)
            }
          };
          self.out.push_str(&text);
          self.out.push_str(self.nl);
          return;
        }
        // ---- phases and attribute shapes
        30..=32 if !script => {
          let (raw, cooked) = self.spec_literal();
          let c = self.counter;
          let (text, sub) = match form {
            30 => (format!("import source w{} from {};", c, raw), 2),
            31 => (format!("import defer * as n{} from {};", c, raw), 1),
            _ => (format!("import j{} from {} with {{ type: \"json\", \"other\": 'x' }};", c, raw), 16 * 3),
          };
          if pragma {
            let p = self.types_pragma(false);
            self.out.push_str(&p);
          }
          self.out.push_str(&text);
          self.out.push_str(self.nl);
          self.expected.push((0, sub, cooked));
          return;
        }
        33..=36 if !dts => {
          let (raw, cooked) = self.spec_literal();
          let p = if pragma { self.types_pragma(true) } else { String::new() };
          let c = self.counter;
          let text = match form {
            33 => {
              self.expected.push((1, 2, cooked));
              format!("{}import.source({}).then((m) => m);", p, raw)
            }
            34 => {
              self.expected.push((1, 1, cooked));
              format!("const y{} = {}import.defer({});", c, p, raw)
            }
            35 => {
              self.expected.push((1, 16 * 2, cooked));
              format!("const z{} = (q) => {}import({}, {{ with: {{ ...q }} }});", c, p, raw)
            }
            _ => {
              self.expected.push((1, 16 * 4, cooked));
              format!("const o{} = {}import({}, {{ with: {{}} }});", c, p, raw)
            }
          };
          self.out.push_str(&text);
          self.out.push_str(self.nl);
          return;
        }
        // ---- JSDoc imports (reported for JavaScript media only)
        25 | 26 if !dts => {
          self.counter += 1;
          let s = format!("./jsdoc{}.js", self.counter);
          let s2 = format!("./jsdoc-π{}.js", self.counter);
          let text = if form == 25 {
            if js_untyped {
              self.expected.push((10, 0, s.clone()));
            }
            format!("/** @type {{import(\"{}\").T}} */{}let j{};", s, self.nl, self.counter)
          } else {
            if js_untyped {
              self.expected.push((10, 0, s.clone()));
              self.expected.push((10, 2, s2.clone()));
            }
            format!(
              "/**{} * @import {{ A }} from '{}'{} * @import * as ns from \"{}\" with {{ \"resolution-mode\": \"require\" }}{} */{}let j{};",
              self.nl, s, self.nl, s2, self.nl, self.nl, self.counter
            )
          };
          self.out.push_str(&text);
          self.out.push_str(self.nl);
          return;
        }
        // ---- noise: string literals and calls that are not dependencies
        27 if !dts => {
          let (raw, _) = self.spec_literal();
          self.out.push_str(&format!("const s{} = {}; foo({}); `import(\"./no.js\")`;", self.counter, raw, raw));
          self.out.push_str(self.nl);
          return;
        }
        28 if !dts => {
          self.out.push_str("export const re = /import\\(\"x\"\\)/u, str = 'import \"y\"';");
          self.out.push_str(self.nl);
          if script {
            // `export` is not allowed in a script
            let l = self.out.len();
            self.out.truncate(l - self.nl.len() - "export const re = /import\\(\"x\"\\)/u, str = 'import \"y\"';".len());
            self.out.push_str("const re0 = 1;");
            self.out.push_str(self.nl);
          }
          return;
        }
        29 if dts => {
          self.out.push_str(&format!("export declare const c{}: string;", self.counter));
          self.counter += 1;
          self.out.push_str(self.nl);
          return;
        }
        _ => continue,
      }
    }
  }

  fn header(&mut self) {
    if self.rng.chance(12) {
      self.out.push_str("#!/usr/bin/env -S deno run");
      self.out.push_str(self.nl);
    }
    self.trivia();
    let mut seen_self = false;
    let mut seen_jsx = false;
    let mut seen_jsx_types = false;
    for _ in 0..self.rng.below(4) {
      let t = self.pragma_spec();
      match self.rng.below(7) {
        0 => {
          self.out.push_str(&format!("/// <reference path=\"{}\" />", t));
          self.expected.push((5, 0, t));
        }
        1 => {
          self.out.push_str(&format!("///<reference types='{}'/>", t));
          self.expected.push((6, 0, t));
        }
        2 => {
          let mode = *self.rng.pick(&["require", "import", "other"]);
          self.out.push_str(&format!("/// <reference types=\"{}\" resolution-mode=\"{}\" />", t, mode));
          self.expected.push((6, if mode == "import" { 1 } else if mode == "require" { 2 } else { 0 }, t));
        }
        3 => {
          if self.rng.chance(50) {
            self.out.push_str(&format!("// @ts-self-types=\"{}\"", t));
          } else {
            self.out.push_str(&format!("/* @ts-self-types = '{}' */", t));
          }
          if !self.ext.is_ts() && !seen_self {
            self.expected.push((7, 0, t));
          }
          seen_self = true;
        }
        4 => {
          let src = *self.rng.pick(&["preact", "https://esm.sh/preact@10", "npm:react", "./jsx-π"]);
          if self.rng.chance(50) {
            self.out.push_str(&format!("/** @jsxImportSource {} */", src));
          } else {
            self.out.push_str(&format!("/* @jsxImportSource   {}*/", src));
          }
          if self.ext.is_jsx() && !seen_jsx {
            self.expected.push((8, 0, src.to_string()));
          }
          seen_jsx = true;
        }
        5 => {
          self.out.push_str(&format!("/** @jsxImportSourceTypes {} */", t));
          if self.ext.is_jsx() && !seen_jsx_types {
            self.expected.push((9, 0, t));
          }
          seen_jsx_types = true;
        }
        _ => {
          // wrong comment kind: a line comment is not a JSX pragma, a block comment is not a reference
          if self.rng.chance(50) {
            self.out.push_str(&format!("// @jsxImportSource {}", t));
          } else {
            self.out.push_str(&format!("/* / <reference path=\"{}\" /> */", t));
          }
        }
      }
      self.out.push_str(self.nl);
      if self.rng.chance(30) {
        let w = self.words();
        self.out.push_str(&format!("// {}{}", w, self.nl));
      }
    }
  }
}

fn gen_program(rng: &mut Rng, adversarial: bool) -> SourceCase {
  let ext = *rng.pick(&[Ext::Js, Ext::Js, Ext::Mjs, Ext::Cjs, Ext::Jsx, Ext::Ts, Ext::Ts, Ext::Mts, Ext::Tsx, Ext::Dts]);
  let nl = *rng.pick(&["\n", "\n", "\n", "\r\n", "\r\n", "\r"]);
  let bom = rng.chance(15);
  // now and then a module that consists of comments only (pragmas, references, a shebang line): the
  // analyser then has no first statement to take the leading comments from
  let n_stmts = if rng.chance(8) { 0 } else { rng.range(1, 7) };
  let mut g = Gen { rng, ext, nl, out: String::new(), expected: vec![], counter: 0, adversarial };
  g.header();
  for _ in 0..n_stmts {
    g.trivia();
    g.stmt();
  }
  g.trivia();
  if g.rng.chance(35) {
    let m = *g.rng.pick(&["out.js.map", "./π.map", "data:application/json;base64,e30="]);
    if g.rng.chance(70) {
      g.out.push_str(&format!("//# sourceMappingURL={}", m));
    } else {
      g.out.push_str(&format!("/*# sourceMappingURL={} */", m));
    }
    g.expected.push((11, 0, m.to_string()));
    if g.rng.chance(60) {
      g.out.push_str(nl);
    }
  }
  let mut src = g.out.clone();
  let mut expected = Some(g.expected.clone());
  if adversarial {
    expected = None;
    match g.rng.below(6) {
      0 if matches!(ext, Ext::Js | Ext::Cjs) => {
        // HTML-like comments (scripts only): known finding F-C08a
        let t = g.pragma_spec();
        match g.rng.below(3) {
          0 => src = format!("<!-- @ts-self-types=\"{}\"{}globalThis.x = 1;{}", t, nl, nl),
          1 => src = format!("<!--/ <reference path=\"{}\" />{}require(\"./a.js\");{}", t, nl, nl),
          _ => src = format!("require(\"./a.js\");{}-->#  sourceMappingURL=a.map", nl),
        }
      }
      1 if ext.is_jsx() => {
        // a quote-less pragma capture that swallows a JSDoc import: known finding F-C08b
        src = format!("/** @jsxImportSource {{import(\"./x.js\")}} */{}{}", nl, src);
      }
      2 => {
        // comments only
        src = format!("// @ts-self-types=\"./s.d.ts\"{}/* @jsxImportSource preact */{}//# sourceMappingURL=only.map", nl, nl);
      }
      3 => {
        src = format!("#!/usr/bin/env deno{}/// <reference path=\"./p.d.ts\" />{}", nl, nl);
        expected = Some(vec![(5, 0, "./p.d.ts".to_string())]);
      }
      _ => {}
    }
  }
  let mut bytes = vec![];
  if bom {
    bytes.extend_from_slice(&[0xef, 0xbb, 0xbf]);
  }
  bytes.extend_from_slice(src.as_bytes());
  SourceCase {
    origin: if adversarial { "generated_adversarial".into() } else { "generated".into() },
    specifier: format!("file:///gen/mod.{}", ext.name()),
    headers: None,
    bytes,
    expected,
  }
}

/// hand-written seeds: the confirmed findings and a few corner cases
fn seeds() -> Vec<SourceCase> {
  let mk = |spec: &str, src: &str| SourceCase {
    origin: "seed".into(),
    specifier: spec.into(),
    headers: None,
    bytes: src.as_bytes().to_vec(),
    expected: None,
  };
  vec![
    mk("file:///seed/html1.js", "<!-- @ts-self-types=\"./a.d.ts\"\nfoo();\n"),
    mk("file:///seed/html2.js", "<!--/ <reference path=\"./x.d.ts\" />\nfoo();\n//# sourceMappingURL=a.map\n"),
    mk("file:///seed/html3.js", "foo();\n-->#  sourceMappingURL=a.map"),
    mk("file:///seed/swallow.jsx", "/** @jsxImportSource {import(\"./x.js\")} */\nexport {};\n"),
    mk("file:///seed/astral.ts", "/* 😀😀 */ import \"./😀.ts\"; /* é */ export * from './\\u{1F600}.ts';\r\n// @ts-types=\"./π.d.ts\"\r\nimport a from \"./a.js\";\r\n"),
    mk("file:///seed/tpl.js", "const a = import(`./b.js`), c = import(`./d/${a}.js`), e = import(\"./e\" + a + \".js\"), f = require('\\x2e/f.js');\n"),
    mk("file:///seed/cr.js", "// @deno-types=./t.d.ts\rimport \"./a.js\";\r//# sourceMappingURL=x.map\r"),
  ]
}

// ------------------------------------------------------------------ kind 3

fn gen_grid_range(rng: &mut Rng) -> PositionRange {
  let a = Position::new(rng.below(3), rng.below(5));
  let b = Position::new(rng.below(3), rng.below(5));
  // mostly well-formed, sometimes reversed or empty
  if a <= b || rng.chance(10) { PositionRange { start: a, end: b } } else { PositionRange { start: b, end: a } }
}

/// REAL `Dependency` values with explicit ranges; every grid position is looked up with the real
/// `Dependency::includes` (first match over the map) and compared with the model's dep_at / dep_includes
fn lookup_case(rng: &mut Rng) -> Case {
  let spec = ModuleSpecifier::parse("file:///m.ts").unwrap();
  let mk = |r: PositionRange| Range { specifier: spec.clone(), range: r, resolution_mode: None };
  let n = rng.range(1, 4);
  let mut deps: Vec<Dependency> = vec![];
  let mut deps_in = vec![];
  for k in 0..n {
    let imports: Vec<PositionRange> = (0..rng.below(3)).map(|_| gen_grid_range(rng)).collect();
    let tr = if rng.chance(50) { Some(gen_grid_range(rng)) } else { None };
    let maybe_type = match tr {
      None => Resolution::None,
      Some(r) if rng.chance(50) => Resolution::Ok(Box::new(ResolutionResolved { specifier: spec.clone(), range: mk(r) })),
      Some(r) => Resolution::Err(Box::new(ResolutionError::InvalidDowngrade { specifier: spec.clone(), range: mk(r) })),
    };
    deps.push(Dependency {
      maybe_type,
      imports: imports
        .iter()
        .map(|r| Import {
          specifier: format!("./d{}.ts", k),
          kind: ImportKind::Es,
          specifier_range: mk(*r),
          is_dynamic: false,
          is_side_effect: false,
          attributes: Default::default(),
        })
        .collect(),
      ..Default::default()
    });
    deps_in.push(Sx::L(vec![Sx::A(k as u64), Sx::L(imports.iter().map(range_sx).collect()), Sx::opt(tr.as_ref().map(range_sx))]));
  }
  let mut ps = vec![];
  let mut answers = vec![];
  let mut per_pos = vec![];
  for line in 0..3usize {
    for ch in 0..5usize {
      let p = Position::new(line, ch);
      ps.push(Sx::atoms([line as u64, ch as u64]));
      answers.push(deps.iter().position(|d| d.includes(p).is_some()).map(|x| x as u64 + 1).unwrap_or(0));
      per_pos.push(Sx::L(deps.iter().map(|d| Sx::opt(d.includes(p).map(|r| range_sx(&r.range)))).collect()));
    }
  }
  let hit = answers.iter().filter(|a| **a != 0).count();
  Case {
    input: Sx::L(vec![Sx::A(3), Sx::L(deps_in), Sx::L(ps)]),
    obs: Sx::L(vec![Sx::atoms(answers.iter().cloned()), Sx::L(per_pos)]),
    meta: serde_json::json!({"kind": "lookup", "deps": n}),
    nontrivial: hit > 0 && hit < 15 && n >= 2,
    dist: vec![("lookup_grid_cases".into(), 1), ("lookup_grid_positions".into(), 15)],
    direct_violations: vec![],
  }
}

// ------------------------------------------------------------------ plan

struct Plan {
  n_corpus: u64,
  n_seeds: u64,
  n_gen: u64,
  n_regex_cases: u64,
  regex_batch: usize,
  n_pos_cases: u64,
  pos_batch: usize,
  n_lookup: u64,
}

pub fn run(cfg: &RunCfg) {
  let corpus = load_corpus();
  let seeds = seeds();
  let thorough = cfg.tier == Tier::Thorough;
  let regex_batch = 250usize;
  let per_pragma: u64 = if thorough { 150_000 } else { 50_000 };
  let pos_batch = 20usize;
  let p = Plan {
    n_corpus: corpus.len() as u64,
    n_seeds: seeds.len() as u64,
    n_gen: if thorough { 60_000 } else { 6_000 },
    n_regex_cases: 10 * per_pragma / regex_batch as u64,
    regex_batch,
    n_pos_cases: (if thorough { 200_000 } else { 20_000 }) / pos_batch as u64,
    pos_batch,
    n_lookup: if thorough { 20_000 } else { 2_000 },
  };
  let total = p.n_corpus + p.n_seeds + p.n_gen + p.n_regex_cases + p.n_pos_cases + p.n_lookup;
  run_cases(cfg, total, |seed, k| {
    let mut rng = Rng::for_case(seed, k);
    let mut k = k;
    if k < p.n_corpus {
      return analysis_case(&corpus[k as usize]);
    }
    k -= p.n_corpus;
    if k < p.n_seeds {
      return analysis_case(&seeds[k as usize]);
    }
    k -= p.n_seeds;
    if k < p.n_gen {
      let adversarial = k % 5 == 4;
      let sc = gen_program(&mut rng, adversarial);
      return analysis_case(&sc);
    }
    k -= p.n_gen;
    if k < p.n_regex_cases {
      return recogniser_case(&mut rng, (k % 10) as usize, p.regex_batch);
    }
    k -= p.n_regex_cases;
    if k < p.n_pos_cases {
      return positions_case(&mut rng, p.pos_batch, k == 0);
    }
    lookup_case(&mut rng)
  });
}

/// `dgverif c08probe <file> <specifier>`: print what the real analyser reports for one source
pub fn probe(path: &str, spec: &str) {
  let bytes = std::fs::read(path).unwrap();
  let sc = SourceCase { origin: "probe".into(), specifier: spec.into(), headers: None, bytes, expected: None };
  let url = ModuleSpecifier::parse(spec).unwrap();
  let media = MediaType::from_specifier(&url);
  let text: Arc<str> = Arc::from(String::from_utf8_lossy(&sc.bytes).trim_start_matches('\u{feff}'));
  if let Some(cs) = real_comments(&url, &text, media) {
    for c in cs {
      println!("comment block={} start={} end={} text={:?}", c.block, c.start, c.end, c.text);
    }
  }
  match catch(|| ParserModuleAnalyzer::default().analyze_sync(&url, text.clone(), media)) {
    Some(Ok(info)) => println!("{}", serde_json::to_string_pretty(&info).unwrap()),
    Some(Err(e)) => println!("parse error: {}", e),
    None => println!("PANIC in analysis"),
  }
  let c = analysis_case(&sc);
  println!("input: {}", c.input.to_string());
  println!("impl : {}", c.obs.to_string());
}
