//! Finite module worlds: what a loader would answer, a generator for them, and
//! a `Loader` that serves them to the real deno_graph.
use crate::rng::Rng;
use deno_graph::source::*;
use deno_graph::ModuleSpecifier;
use futures::FutureExt;
use std::cell::RefCell;
use std::collections::BTreeMap;
use std::collections::HashMap;
use std::sync::Arc;

#[derive(Clone, Debug, PartialEq, Eq)]
pub enum Form {
  Static,     // import "x";
  Named,      // import {a} from "x";
  TypeOnly,   // import type {T} from "x";
  Dynamic,    // await import("x");
  ExportStar, // export * from "x";
  ExportType, // export type {T} from "x";
  DenoTypes(String), // // @deno-types="y" \n import a from "x";
  RefTypes,   // /// <reference types="x" />
  RefPath,    // /// <reference path="x" />
  JsonAttr,   // import d from "x" with { type: "json" };
  DynJsonAttr, // await import("x", { with: { type: "json" } });
  ImportType, // type X = import("x").Y;
  JsDoc,      // /** @type {import("x").T} */
  TextAttr,   // import t from "x" with { type: "text" };
  BytesAttr,  // import b from "x" with { type: "bytes" };
  DynTextAttr, // await import("x", { with: { type: "text" } });
  BogusAttr,  // import z from "x" with { type: "bogus" };
  SourcePhase, // import source w from "x";
  DynSourcePhase, // await import.source("x");
}

#[derive(Clone, Debug)]
pub struct Imp {
  pub form: Form,
  pub text: String,
}

#[derive(Clone, Debug, Default)]
pub struct ModSrc {
  pub imports: Vec<Imp>,
  pub self_types: Option<String>, // @ts-self-types
  pub broken: bool,               // unparsable source
}

#[derive(Clone, Debug)]
pub enum Entry {
  Module {
    src: ModSrc,
    raw: Option<Vec<u8>>, // overrides rendered source when set (json, bytes)
    headers: Option<Vec<(String, String)>>,
  },
  Redirect(String),
  Missing,
  Error,
  External,
}

#[derive(Clone, Debug, Default)]
pub struct World {
  pub entries: BTreeMap<String, Entry>,
  /// answers under CacheSetting::Reload where they differ from `entries`
  pub reload_entries: BTreeMap<String, Entry>,
  /// answers under CacheSetting::Only (what the cache holds); absent = not cached
  pub only_entries: BTreeMap<String, Entry>,
  /// modules answered under a final specifier other than the requested one
  pub final_specifiers: BTreeMap<String, String>,
  /// BuildOptions::passthrough_jsr_specifiers of every build over this world (kept here because the
  /// class of a jsr: specifier - resolved through the registry, or marked external at once - depends on it)
  pub passthrough_jsr: bool,
  /// None = builds over this world have no npm resolver; else what the resolver answers per requirement
  /// ("name@req" as PackageReq prints it): 1 = rejected, 2 = resolves but the dependency graph of a batch
  /// containing it fails, anything else / absent = resolves
  pub npm: Option<BTreeMap<String, u8>>,
  /// None = builds (and parses) over this world have no resolver
  pub resolver: Option<ResolverCfg>,
}

/// What the harness resolver does beyond the default resolution.
#[derive(Clone, Debug, Default)]
pub struct ResolverCfg {
  /// import text -> Some(url) (mapped, as an import map would) | None (the resolver refuses it)
  pub map: BTreeMap<String, Option<String>>,
  /// untyped module specifier -> Some(url of its types) | None (resolve_types fails)
  pub types: BTreeMap<String, Option<String>>,
  pub jsx_source: Option<String>,
  pub jsx_types: Option<String>,
}

impl deno_graph::source::Resolver for ResolverCfg {
  fn default_jsx_import_source(&self, _referrer: &ModuleSpecifier) -> Option<String> {
    self.jsx_source.clone()
  }
  fn default_jsx_import_source_types(&self, _referrer: &ModuleSpecifier) -> Option<String> {
    self.jsx_types.clone()
  }
  fn resolve(&self, specifier_text: &str, referrer_range: &deno_graph::Range, _kind: ResolutionKind) -> Result<ModuleSpecifier, ResolveError> {
    match self.map.get(specifier_text) {
      Some(Some(url)) => Ok(ModuleSpecifier::parse(url).unwrap()),
      Some(None) => Err(ResolveError::Other(deno_error::JsErrorBox::generic("blocked by the resolver"))),
      None => Ok(deno_graph::resolve_import(specifier_text, &referrer_range.specifier)?),
    }
  }
  fn resolve_types(&self, specifier: &ModuleSpecifier) -> Result<Option<(ModuleSpecifier, Option<deno_graph::Range>)>, ResolveError> {
    match self.types.get(specifier.as_str()) {
      Some(Some(url)) => Ok(Some((ModuleSpecifier::parse(url).unwrap(), None))),
      Some(None) => Err(ResolveError::Other(deno_error::JsErrorBox::generic("no types"))),
      None => Ok(None),
    }
  }
}

pub fn render(src: &ModSrc, is_js: bool) -> String {
  let mut head = String::new();
  let mut body = String::new();
  if let Some(t) = &src.self_types {
    head.push_str(&format!("/* @ts-self-types=\"{}\" */\n", t));
  }
  for (i, imp) in src.imports.iter().enumerate() {
    let t = &imp.text;
    match &imp.form {
      Form::Static => body.push_str(&format!("import \"{}\";\n", t)),
      Form::Named => body.push_str(&format!("import {{ a as a{} }} from \"{}\";\n", i, t)),
      Form::TypeOnly => {
        if is_js {
          body.push_str(&format!("import \"{}\";\n", t))
        } else {
          body.push_str(&format!("import type {{ T as T{} }} from \"{}\";\n", i, t))
        }
      }
      Form::Dynamic => body.push_str(&format!("await import(\"{}\");\n", t)),
      Form::ExportStar => body.push_str(&format!("export * from \"{}\";\n", t)),
      Form::ExportType => {
        if is_js {
          body.push_str(&format!("export * from \"{}\";\n", t))
        } else {
          body.push_str(&format!("export type {{ U as U{} }} from \"{}\";\n", i, t))
        }
      }
      Form::DenoTypes(y) => body.push_str(&format!(
        "// @deno-types=\"{}\"\nimport d{} from \"{}\";\n",
        y, i, t
      )),
      Form::RefTypes => head.push_str(&format!("/// <reference types=\"{}\" />\n", t)),
      Form::RefPath => head.push_str(&format!("/// <reference path=\"{}\" />\n", t)),
      Form::JsonAttr => body.push_str(&format!(
        "import j{} from \"{}\" with {{ type: \"json\" }};\n",
        i, t
      )),
      Form::DynJsonAttr => body.push_str(&format!(
        "await import(\"{}\", {{ with: {{ type: \"json\" }} }});\n",
        t
      )),
      Form::SourcePhase => body.push_str(&format!("import source sp{} from \"{}\";\n", i, t)),
      Form::DynSourcePhase => body.push_str(&format!("await import.source(\"{}\");\n", t)),
      Form::TextAttr => body.push_str(&format!("import t{} from \"{}\" with {{ type: \"text\" }};\n", i, t)),
      Form::BytesAttr => body.push_str(&format!("import b{} from \"{}\" with {{ type: \"bytes\" }};\n", i, t)),
      Form::DynTextAttr => body.push_str(&format!("await import(\"{}\", {{ with: {{ type: \"text\" }} }});\n", t)),
      Form::BogusAttr => body.push_str(&format!("import z{} from \"{}\" with {{ type: \"bogus\" }};\n", i, t)),
      Form::ImportType => {
        if is_js {
          body.push_str(&format!("/** @type {{import(\"{}\").T}} */\nconst v{} = null;\n", t, i))
        } else {
          body.push_str(&format!("type X{} = import(\"{}\").Y;\n", i, t))
        }
      }
      Form::JsDoc => body.push_str(&format!(
        "/** @type {{import(\"{}\").T}} */\nconst w{} = null;\n",
        t, i
      )),
    }
  }
  if src.broken {
    body.push_str("import {{{ from ;;; \n");
  }
  body.push_str("export const a = 1;\n");
  format!("{}{}", head, body)
}

pub fn is_js_ext(spec: &str) -> bool {
  let p = spec.split(['?', '#']).next().unwrap_or(spec);
  p.ends_with(".js") || p.ends_with(".mjs") || p.ends_with(".jsx") || p.ends_with(".cjs")
}

impl World {
  pub fn entry(&self, spec: &str, reload: bool) -> Option<&Entry> {
    if reload {
      if let Some(e) = self.reload_entries.get(spec) {
        return Some(e);
      }
    }
    self.entries.get(spec)
  }
  pub fn content_of(&self, spec: &str, reload: bool) -> Option<Vec<u8>> {
    match self.entry(spec, reload)? {
      Entry::Module { src, raw, .. } => Some(match raw {
        Some(b) => b.clone(),
        None => render(src, is_js_ext(spec)).into_bytes(),
      }),
      _ => None,
    }
  }
  pub fn only_content(&self, spec: &str) -> Option<Vec<u8>> {
    match self.only_entries.get(spec)? {
      Entry::Module { src, raw, .. } => Some(match raw {
        Some(b) => b.clone(),
        None => render(src, is_js_ext(spec)).into_bytes(),
      }),
      _ => None,
    }
  }
  pub fn content(&self, spec: &str) -> Option<Vec<u8>> {
    match self.entries.get(spec)? {
      Entry::Module { src, raw, .. } => Some(match raw {
        Some(b) => b.clone(),
        None => render(src, is_js_ext(spec)).into_bytes(),
      }),
      _ => None,
    }
  }
}

/// Log of loader calls (specifier, cache setting, presented checksum, in_dynamic_branch).
#[derive(Clone, Debug)]
pub struct LoadCall {
  pub reload: bool,
  pub asset: bool,
  pub specifier: String,
  pub cache_setting: &'static str,
  pub checksum: Option<String>,
  pub in_dynamic_branch: bool,
}

pub struct WorldLoader<'a> {
  pub world: &'a World,
  pub log: RefCell<Vec<LoadCall>>,
  pub max_redirects: usize,
  /// registry worlds: CacheSetting::Only consults `only_entries` even when that map is empty
  pub only_means_uncached: bool,
  pub trace: bool,
}

impl<'a> WorldLoader<'a> {
  pub fn new(world: &'a World) -> Self {
    WorldLoader { world, log: RefCell::new(vec![]), max_redirects: 10, only_means_uncached: false, trace: std::env::var("DGVERIF_TRACE_LOADS").is_ok() }
  }
  pub fn answer(&self, specifier: &ModuleSpecifier) -> LoadResult {
    self.answer_with(specifier, false, None)
  }
  /// The loader's contract: content whose SHA-256 differs from the presented checksum is rejected.
  /// CacheSetting::Only: what the cache holds.
  pub fn answer_only(&self, specifier: &ModuleSpecifier, checksum: Option<&LoaderChecksum>) -> LoadResult {
    let r = match self.world.only_entries.get(specifier.as_str()) {
      None | Some(Entry::Missing) => Ok(None),
      Some(Entry::Error) => Err(LoadError::Other(Arc::new(deno_error::JsErrorBox::generic("load failed")))),
      Some(Entry::External) => Ok(Some(LoadResponse::External { specifier: specifier.clone() })),
      Some(Entry::Redirect(to)) => Ok(Some(LoadResponse::Redirect { specifier: ModuleSpecifier::parse(to).unwrap() })),
      Some(Entry::Module { headers, .. }) => Ok(Some(LoadResponse::Module {
        content: Arc::from(self.world.only_content(specifier.as_str()).unwrap()),
        mtime: None,
        specifier: specifier.clone(),
        maybe_headers: headers.as_ref().map(|h| h.iter().cloned().collect::<HashMap<_, _>>()),
      })),
    }?;
    if let (Some(LoadResponse::Module { content, .. }), Some(c)) = (&r, checksum) {
      c.check_source(content).map_err(LoadError::ChecksumIntegrity)?;
    }
    Ok(r)
  }
  pub fn answer_with(&self, specifier: &ModuleSpecifier, reload: bool, checksum: Option<&LoaderChecksum>) -> LoadResult {
    let r = self.answer_raw(specifier, reload)?;
    if let (Some(LoadResponse::Module { content, .. }), Some(c)) = (&r, checksum) {
      c.check_source(content).map_err(LoadError::ChecksumIntegrity)?;
    }
    Ok(r)
  }
  fn answer_raw(&self, specifier: &ModuleSpecifier, reload: bool) -> LoadResult {
    if specifier.scheme() == "data" {
      return load_data_url(specifier).map_err(|e| {
        LoadError::Other(Arc::new(deno_error::JsErrorBox::generic(e.to_string())))
      });
    }
    match self.world.entry(specifier.as_str(), reload) {
      None | Some(Entry::Missing) => Ok(None),
      Some(Entry::Error) => Err(LoadError::Other(Arc::new(
        deno_error::JsErrorBox::generic("load failed"),
      ))),
      Some(Entry::External) => Ok(Some(LoadResponse::External {
        specifier: specifier.clone(),
      })),
      Some(Entry::Redirect(to)) => Ok(Some(LoadResponse::Redirect {
        specifier: ModuleSpecifier::parse(to).unwrap(),
      })),
      Some(Entry::Module { headers, .. }) => Ok(Some(LoadResponse::Module {
        content: Arc::from(self.world.content_of(specifier.as_str(), reload).unwrap()),
        mtime: None,
        specifier: match self.world.final_specifiers.get(specifier.as_str()) {
          Some(f) => ModuleSpecifier::parse(f).unwrap(),
          None => specifier.clone(),
        },
        maybe_headers: headers
          .as_ref()
          .map(|h| h.iter().cloned().collect::<HashMap<_, _>>()),
      })),
    }
  }
}

impl Loader for WorldLoader<'_> {
  fn max_redirects(&self) -> usize {
    self.max_redirects
  }
  fn ensure_cached(&self, specifier: &ModuleSpecifier, options: LoadOptions) -> EnsureCachedFuture {
    let reload = options.cache_setting == CacheSetting::Reload;
    self.log.borrow_mut().push(LoadCall {
      reload,
      asset: true,
      specifier: specifier.to_string(),
      cache_setting: options.cache_setting.as_js_str(),
      checksum: options.maybe_checksum.as_ref().map(|c| c.as_str().to_string()),
      in_dynamic_branch: options.in_dynamic_branch,
    });
    // same mapping as the trait's default implementation
    let r = self.answer_with(specifier, reload, options.maybe_checksum.as_ref()).map(|v| {
      v.map(|r| match r {
        LoadResponse::Redirect { specifier } => CacheResponse::Redirect { specifier },
        LoadResponse::External { .. } | LoadResponse::Module { .. } => CacheResponse::Cached,
      })
    });
    async move { r }.boxed_local()
  }
  fn load(&self, specifier: &ModuleSpecifier, options: LoadOptions) -> LoadFuture {
    let reload = options.cache_setting == CacheSetting::Reload;
    if self.trace {
      eprintln!("load {} {} {:?}", options.cache_setting.as_js_str(), specifier, options.maybe_checksum.as_ref().map(|c| c.as_str().to_string()));
    }
    self.log.borrow_mut().push(LoadCall {
      reload,
      asset: false,
      specifier: specifier.to_string(),
      cache_setting: options.cache_setting.as_js_str(),
      checksum: options.maybe_checksum.as_ref().map(|c| c.as_str().to_string()),
      in_dynamic_branch: options.in_dynamic_branch,
    });
    let r = if options.cache_setting == CacheSetting::Only && (self.only_means_uncached || !self.world.only_entries.is_empty()) {
      self.answer_only(specifier, options.maybe_checksum.as_ref())
    } else {
      self.answer_with(specifier, reload, options.maybe_checksum.as_ref())
    };
    async move { r }.boxed_local()
  }
}

/// A locker that logs what it is told.
#[derive(Default)]
pub struct LogLocker {
  pub remote: HashMap<String, String>,
  pub sets: Vec<(String, String)>,
  pub pkg: HashMap<String, String>,
  pub pkg_sets: Vec<(String, String)>,
}

impl Locker for LogLocker {
  fn get_remote_checksum(&self, specifier: &ModuleSpecifier) -> Option<LoaderChecksum> {
    self.remote.get(specifier.as_str()).map(|s| LoaderChecksum::new(s.clone()))
  }
  fn has_remote_checksum(&self, specifier: &ModuleSpecifier) -> bool {
    self.remote.contains_key(specifier.as_str())
  }
  fn set_remote_checksum(&mut self, specifier: &ModuleSpecifier, checksum: LoaderChecksum) {
    self.sets.push((specifier.to_string(), checksum.as_str().to_string()));
    self.remote.insert(specifier.to_string(), checksum.into_string());
  }
  fn get_pkg_manifest_checksum(&self, nv: &deno_semver::package::PackageNv) -> Option<LoaderChecksum> {
    self.pkg.get(&nv.to_string()).map(|s| LoaderChecksum::new(s.clone()))
  }
  fn set_pkg_manifest_checksum(&mut self, nv: &deno_semver::package::PackageNv, checksum: LoaderChecksum) {
    self.pkg_sets.push((nv.to_string(), checksum.as_str().to_string()));
    self.pkg.insert(nv.to_string(), checksum.into_string());
  }
}

pub struct InlineExecutor;
impl deno_graph::Executor for InlineExecutor {
  fn execute(
    &self,
    fut: std::pin::Pin<Box<dyn std::future::Future<Output = ()> + 'static>>,
  ) -> std::pin::Pin<Box<dyn std::future::Future<Output = ()> + 'static>> {
    fut
  }
}

// ---------------- generator ----------------

pub struct GenCfg {
  /// also generate text/bytes/bogus attributes (a function of the target, under the proviso)
  pub assets: bool,
  pub max_modules: usize,
  pub redirects: bool,
  pub faults: bool,
  /// all imports of one target use the same `type` attribute
  pub same_attr_proviso: bool,
}

const EXTS: &[&str] = &["ts", "ts", "ts", "js", "js", "tsx", "jsx", "d.ts", "mjs", "mts", "json"];

fn origin_of(spec: &str) -> &str {
  // "file:///p/" or "https://h.test/" etc: everything up to and including the last '/'
  match spec.rfind('/') {
    Some(idx) => &spec[..=idx],
    None => "",
  }
}

/// specifier text used in module `from` to name `to`
fn text_for(rng: &mut Rng, from: &str, to: &str) -> String {
  if origin_of(from) == origin_of(to) && !rng.chance(15) {
    format!("./{}", &to[origin_of(to).len()..])
  } else if to.starts_with("file://") && rng.chance(30) {
    // literal file URL with odd case: exercised by the local-import policy
    format!("FILE://{}", &to["file://".len()..])
  } else {
    to.to_string()
  }
}

/// Attribute class of a target under the proviso, when asset attributes are
/// generated too: 0 none, 1 json, 2 text, 3 bytes, 5 bogus.
pub fn attr_class_target(to: &str, assets: bool) -> u8 {
  if attr_json_target(to) {
    return 1;
  }
  // targets that are only ever imported at source phase (`import source x from ...`)
  let leaf = to.rsplit('/').next().unwrap_or("");
  if leaf.starts_with("spx") || leaf.starts_with("wsp") {
    return 9;
  }
  if !assets {
    return 0;
  }
  let name = to.rsplit('/').next().unwrap_or("");
  if !name.starts_with('m') {
    return 0;
  }
  let h: u32 = to.bytes().fold(11u32, |a, b| a.wrapping_mul(37).wrapping_add(b as u32));
  match h % 13 {
    0 | 1 => 2,
    2 => 3,
    3 => 5,
    _ => 0,
  }
}

/// Under the same-attribute proviso: targets whose imports all carry `type: "json"`.
/// A function of the target only (most .json files, and a few others).
pub fn attr_json_target(to: &str) -> bool {
  // only real modules m<k>.<ext>: redirecting / missing / external extras are requested without attribute
  let name = to.rsplit('/').next().unwrap_or("");
  if !name.starts_with('m') {
    return false;
  }
  let h: u32 = to.bytes().fold(7u32, |a, b| a.wrapping_mul(31).wrapping_add(b as u32));
  if to.ends_with(".json") { h % 5 != 0 } else { h % 23 == 0 }
}

fn pick_plain(rng: &mut Rng, all: &[String]) -> String {
  for _ in 0..20 {
    let y = rng.pick(all).clone();
    if attr_class_target(&y, true) == 0 {
      return y;
    }
  }
  "https://h.test/nowhere.ts".to_string()
}

pub fn gen_world(rng: &mut Rng, cfg: &GenCfg) -> (World, Vec<String>) {
  let n = rng.range(2, cfg.max_modules.max(2));
  let origins = ["file:///p/", "https://h.test/", "http://h.test/", "https://h.test/sub/"];
  let mut specs: Vec<String> = vec![];
  // bias: most worlds mostly in one origin, some mixed
  let main_origin = *rng.pick(&origins);
  for k in 0..n {
    let o = if rng.chance(75) { main_origin } else { *rng.pick(&origins) };
    let ext = *rng.pick(EXTS);
    specs.push(format!("{}m{}.{}", o, k, ext));
  }
  // extra specifiers that are not modules
  let mut extra: Vec<String> = vec![];
  let n_extra = rng.below(4);
  for k in 0..n_extra {
    let o = *rng.pick(&origins[1..]);
    extra.push(format!("{}x{}.ts", o, k));
  }
  let mut world = World::default();
  let mut all_targets: Vec<String> = specs.clone();
  all_targets.extend(extra.iter().cloned());
  all_targets.push("node:fs".to_string());
  all_targets.push("https://h.test/nowhere.ts".to_string());

  for s in &specs {
    if s.ends_with(".json") {
      world.entries.insert(
        s.clone(),
        Entry::Module { src: ModSrc::default(), raw: Some(b"{\"a\": 1}".to_vec()), headers: None },
      );
      continue;
    }
    let is_js = is_js_ext(s);
    let mut src = ModSrc::default();
    let n_imp = if rng.chance(20) { 0 } else { rng.range(1, 4) };
    for _ in 0..n_imp {
      let to = rng.pick(&all_targets).clone();
      if cfg.same_attr_proviso {
        // the attribute used for a target is a function of the target
        let json_attr = attr_json_target(&to);
        let mut text = text_for(rng, s, &to);
        if text.starts_with("FILE://") {
          text = to.clone();
        }
        let cls = attr_class_target(&to, cfg.assets);
        let form = if json_attr {
          if rng.chance(70) { Form::JsonAttr } else { Form::DynJsonAttr }
        } else if cls == 2 {
          if rng.chance(70) { Form::TextAttr } else { Form::DynTextAttr }
        } else if cls == 3 {
          Form::BytesAttr
        } else if cls == 5 {
          Form::BogusAttr
        } else {
          match rng.below(100) {
            0..=29 => Form::Static,
            30..=39 => Form::Named,
            40..=57 => Form::TypeOnly,
            58..=75 => Form::Dynamic,
            76..=80 => Form::ExportStar,
            81..=84 => Form::ExportType,
            85..=89 => {
              let y = pick_plain(rng, &all_targets);
              Form::DenoTypes(text_for(rng, s, &y))
            }
            90..=93 => Form::RefTypes,
            94..=95 => Form::RefPath,
            _ => Form::ImportType,
          }
        };
        src.imports.push(Imp { form, text });
        continue;
      }
      let mut text = text_for(rng, s, &to);
      if rng.chance(4) {
        text = "bare-spec".to_string(); // resolution error without a resolver
      }
      let form = match rng.below(100) {
        0..=24 => Form::Static,
        25..=34 => Form::Named,
        35..=49 => Form::TypeOnly,
        50..=64 => Form::Dynamic,
        65..=69 => Form::ExportStar,
        70..=73 => Form::ExportType,
        74..=79 => {
          let y = rng.pick(&all_targets).clone();
          Form::DenoTypes(text_for(rng, s, &y))
        }
        80..=84 => Form::RefTypes,
        85..=87 => Form::RefPath,
        88..=91 => Form::JsonAttr,
        92..=93 => Form::DynJsonAttr,
        94..=96 => Form::ImportType,
        _ => if is_js { Form::JsDoc } else { Form::ImportType },
      };
      src.imports.push(Imp { form, text });
    }
    if is_js && rng.chance(25) {
      let y = if cfg.same_attr_proviso { pick_plain(rng, &all_targets) } else { rng.pick(&all_targets).clone() };
      src.self_types = Some(text_for(rng, s, &y));
    }
    if cfg.faults && rng.chance(5) {
      src.broken = true;
    }
    let mut headers = None;
    if !s.starts_with("file:") {
      let mut h = vec![];
      if is_js && rng.chance(20) {
        let y = if cfg.same_attr_proviso { pick_plain(rng, &all_targets) } else { rng.pick(&all_targets).clone() };
        h.push(("x-typescript-types".to_string(), text_for(rng, s, &y)));
      }
      if rng.chance(15) {
        let ct = *rng.pick(&[
          "application/typescript",
          "text/javascript",
          "application/json",
          "text/plain",
          "application/typescript; charset=utf-8",
        ]);
        h.push(("content-type".to_string(), ct.to_string()));
      }
      if !h.is_empty() {
        headers = Some(h);
      }
    }
    world.entries.insert(s.clone(), Entry::Module { src, raw: None, headers });
  }
  for x in &extra {
    let e = match rng.below(100) {
      0..=39 if cfg.redirects => {
        // redirect to a module or another extra (chains and cycles arise)
        let to = if rng.chance(70) {
          if cfg.same_attr_proviso { pick_plain(rng, &specs) } else { rng.pick(&specs).clone() }
        } else {
          rng.pick(&extra).clone()
        };
        Entry::Redirect(to)
      }
      0..=59 => Entry::Missing,
      60..=79 if cfg.faults => Entry::Error,
      _ => Entry::External,
    };
    world.entries.insert(x.clone(), e);
  }
  // roots
  let mut roots = vec![];
  let n_roots = rng.range(1, 3);
  for _ in 0..n_roots {
    let r = if rng.chance(85) { rng.pick(&specs).clone() } else { rng.pick(&all_targets).clone() };
    if !roots.contains(&r) && !r.starts_with("node:") {
      roots.push(r);
    }
  }
  if roots.is_empty() {
    roots.push(specs[0].clone());
  }
  (world, roots)
}

/// An NpmResolver answering from `World::npm`; every resolve_pkg_reqs call is appended to the
/// loader's call log as a pseudo call (cache_setting "npm", specifier = the requirements joined by
/// spaces), so that the order of batches is observed together with the loader calls.
#[derive(Debug)]
pub struct WorldNpm<'a> {
  pub answers: &'a BTreeMap<String, u8>,
  pub log: &'a RefCell<Vec<LoadCall>>,
}

#[derive(Debug, deno_error::JsError)]
#[class(generic)]
struct NpmFault(&'static str);
impl std::fmt::Display for NpmFault {
  fn fmt(&self, f: &mut std::fmt::Formatter<'_>) -> std::fmt::Result {
    write!(f, "{}", self.0)
  }
}
impl std::error::Error for NpmFault {}

#[async_trait::async_trait(?Send)]
impl deno_graph::source::NpmResolver for WorldNpm<'_> {
  fn load_and_cache_npm_package_info(&self, _package_name: &str) {}

  async fn resolve_pkg_reqs(&self, package_reqs: &[deno_semver::package::PackageReq]) -> deno_graph::source::NpmResolvePkgReqsResult {
    let names: Vec<String> = package_reqs.iter().map(|r| r.to_string()).collect();
    self.log.borrow_mut().push(LoadCall { reload: false, asset: false, specifier: names.join(" "), cache_setting: "npm", checksum: None, in_dynamic_branch: false });
    let code = |r: &String| self.answers.get(r).copied().unwrap_or(0);
    let results = names
      .iter()
      .map(|r| if code(r) == 1 { Err(deno_graph::NpmLoadError::RegistryInfo(Arc::new(NpmFault("rejected")))) } else { Ok(()) })
      .collect();
    let dep_graph_result: Result<(), Arc<dyn deno_error::JsErrorClass>> =
      if names.iter().any(|r| code(r) == 2) { Err(Arc::new(NpmFault("dependency graph"))) } else { Ok(()) };
    deno_graph::source::NpmResolvePkgReqsResult { results, dep_graph_result }
  }
}
