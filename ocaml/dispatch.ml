(* property name -> extracted run function *)
let lookup (p : string) : Model.sexp -> Model.sexp =
  match p with
  | "c15" -> Model.run_c15
  | "c02" -> Model.run_c02
  | "c14" -> Model.run_c14
  | "c07" -> Model.run_c07
  | _ -> failwith ("unknown property " ^ p)
