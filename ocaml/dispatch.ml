(* property name -> extracted run function *)
let lookup (p : string) : Model.sexp -> Model.sexp =
  match p with
  | "c15" -> Model.run_c15
  | "c02" -> Model.run_c02
  | "c14" -> Model.run_c14
  | "c17" -> Model.run_c17
  | "c18" -> Model.run_c18
  | "c01" -> Model.run_c01
  | "c03" -> Model.run_c01
  | "c04" -> Model.run_c01
  | "c19" -> Model.run_c19
  | "c06" -> Model.run_c06
  | "c13" -> Model.run_c13
  | "c20" -> Model.run_c20
  | "c07" -> Model.run_c07
  | "c10" -> Model.run_c10
  | "c11" -> Model.run_c11
  | _ -> failwith ("unknown property " ^ p)
