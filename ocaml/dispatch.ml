(* property name -> extracted run function *)
let lookup (p : string) : Model.sexp -> Model.sexp =
  match p with
  | "c15" -> Model.run_c15
  | "c02" -> Model.run_c02
  | "c14" -> Model.run_c14
  | "c17" -> Model.run_c17
  | "c18" -> Model.run_c18
  | "c01" -> Model.run_c01
  | "c06" -> Model.run_c06
  | "c08" -> Model.run_c08
  | _ -> failwith ("unknown property " ^ p)
