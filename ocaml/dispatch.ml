(* property name -> extracted run function *)
let lookup (p : string) : Model.sexp -> Model.sexp =
  match p with
  | "c15" -> Model.run_c15
  | _ -> failwith ("unknown property " ^ p)
