(* property name -> extracted run function *)
let lookup (p : string) : Model.sexp -> Model.sexp =
  match p with
  | "c15" -> Model.run_c15
  | "c02" -> Model.run_c02
  | "c14" -> Model.run_c14
  | "c17" -> Model.run_c17
  | "c18" -> Model.run_c18
  | "c01" -> Model.run_c01j
  | "c03" -> Model.run_c03
  | "c04" -> Model.run_c04
  | "jsr" -> Model.run_jsr
  | "decl" -> Model.run_decl_any
  | "c19" -> Model.run_c19
  | "c05" -> Model.run_c05j
  | "c06" -> Model.run_c06j
  | "c13" -> Model.run_c13j
  | "c20" -> Model.run_c20
  | "c07" -> Model.run_c07j
  | "c16" -> Model.run_c16
  | "c08" -> Model.run_c08
  | "c09" -> Model.run_c09
  | "c12" -> Model.run_c12
  | "c10" -> Model.run_c10
  | "c11" -> Model.run_c11
  | _ -> failwith ("unknown property " ^ p)
