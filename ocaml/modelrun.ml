(* Driver for the extracted Coq model. No logic: parses one s-expression per
   line of stdin into the extracted [sexp] type, applies the extracted
   [run_<prop>] function selected by argv.(1), prints the result. *)
open Model

let rec pos_of_int (i : int) : positive =
  if i = 1 then XH
  else if i land 1 = 0 then XO (pos_of_int (i lsr 1))
  else XI (pos_of_int (i lsr 1))

let n_of_int (i : int) : n = if i = 0 then N0 else Npos (pos_of_int i)

let rec int_of_pos (p : positive) : int =
  match p with XH -> 1 | XO q -> 2 * int_of_pos q | XI q -> 2 * int_of_pos q + 1

let int_of_n (x : n) : int = match x with N0 -> 0 | Npos p -> int_of_pos p

exception Parse_error of string

let parse (s : string) : sexp =
  let len = String.length s in
  let i = ref 0 in
  let skip () = while !i < len && (s.[!i] = ' ' || s.[!i] = '\t' || s.[!i] = '\r') do incr i done in
  let rec go () : sexp =
    skip ();
    if !i >= len then raise (Parse_error "eof");
    if s.[!i] = '(' then begin
      incr i;
      let items = ref [] in
      let fin = ref false in
      while not !fin do
        skip ();
        if !i >= len then raise (Parse_error "eof in list");
        if s.[!i] = ')' then (incr i; fin := true)
        else items := go () :: !items
      done;
      L (List.rev !items)
    end else if s.[!i] >= '0' && s.[!i] <= '9' then begin
      let v = ref 0 in
      while !i < len && s.[!i] >= '0' && s.[!i] <= '9' do
        v := !v * 10 + (Char.code s.[!i] - 48);
        incr i
      done;
      A (n_of_int !v)
    end else raise (Parse_error "bad char")
  in
  go ()

let rec print (b : Buffer.t) (x : sexp) : unit =
  match x with
  | A v -> Buffer.add_string b (string_of_int (int_of_n v))
  | L l ->
      Buffer.add_char b '(';
      List.iteri (fun k y -> if k > 0 then Buffer.add_char b ' '; print b y) l;
      Buffer.add_char b ')'

let () =
  let prop = Sys.argv.(1) in
  let f = Dispatch.lookup prop in
  let b = Buffer.create 65536 in
  (try
     while true do
       let line = input_line stdin in
       Buffer.clear b;
       (try print b (f (parse line)) with
        | Parse_error m -> Buffer.add_string b ("(999998) ; parse error " ^ m)
        | Stack_overflow -> Buffer.add_string b "(999997)");
       print_string (Buffer.contents b);
       print_newline ()
     done
   with End_of_file -> ())
