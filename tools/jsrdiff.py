#!/usr/bin/env python3
"""debug helper: show a registry case's world notes and where impl/model differ"""
import json, sys
d, k = sys.argv[1], int(sys.argv[2])
meta = [json.loads(l) for l in open(d + '/meta.jsonl')][k]['meta']
impl = open(d + '/impl.sx').read().split('\n')[k]
model = open(d + '/model.sx').read().split('\n')[k]
w = meta['world']
print('roots', w['roots'], 'prefer', w['prefer_cached_jsr_versions'], 'lock_pkg', w['lock_pkg'], 'lock_remote', w['lock_remote'])
print('notes', json.dumps(w['notes'], indent=1))
for sect in ('use', 'reload', 'only'):
    for u, e in w[sect].items():
        print(sect, u, json.dumps(e)[:1500])
print('calls', json.dumps(meta['loader_calls'], indent=1))
print('graph', json.dumps(meta['graph'])[:3000])
print('IMPL ', impl)
print('MODEL', model)
