#!/bin/bash
# usage: tools/try_seed.sh <seed-dir-with-patch.diff> <PROP> [<PROP>...]
# applies the seeded change to /repo, runs the quick checks, and always reverts /repo afterwards
d=$1; shift
cd "$(dirname "$(readlink -f "$0")")/.."
git -C /repo apply "$d/patch.diff" || { echo "patch does not apply"; exit 2; }
trap 'git -C /repo checkout -- .' EXIT
for p in "$@"; do
  ./tools/check $p --tier quick > /tmp/try_seed_$p.log 2>&1; rc=$?
  echo "== $p exit=$rc"; grep -E '^(VIOLATION|KNOWN-FINDING|OK|BROKEN)' /tmp/try_seed_$p.log | cut -c1-400
done
