#!/usr/bin/env python3
"""Writes MANIFEST.json from tools/props.py (claimed) and tools/manifest_texts.py."""
import json, os, sys
ROOT = os.path.dirname(os.path.dirname(os.path.abspath(__file__)))
sys.path.insert(0, os.path.join(ROOT, "tools"))
from props import PROPS
from manifest_texts import TEXTS, NOT_YET

ids = [json.loads(l)["id"] for l in open(os.path.join(ROOT, "properties.jsonl"))]
checks = []
for pid in ids:
    if pid not in PROPS:
        continue
    t = TEXTS[pid]
    checks.append({
        "property_id": pid,
        "quick_cmd": "./tools/check %s --tier quick" % pid,
        "thorough_cmd": "./tools/check %s --tier thorough" % pid,
        "evidence_file": "evidence/%s.json" % pid,
        "replay_cmd_template": "./tools/check %s --replay {path}" % pid,
        "engine": "coq-model+correspondence",
        "level_claimed": {"category": PROPS[pid].get("level", "proof"), "text": t["text"], "design_ref": t["design_ref"]},
        "level_note": t["note"],
        "technique": t["technique"],
    })
na = [{"property_id": pid, "reason": NOT_YET.get(pid, "no check built yet; not claimed")}
      for pid in ids if pid not in PROPS]
m = {
    "version": 1,
    "setup_cmd": "./tools/check --setup",
    "hooks": {
        "guard": "denoland_deno_graph_verif",
        "enable": "RUSTFLAGS=--cfg denoland_deno_graph_verif (set in harness/.cargo/config.toml; the harness depends on /repo by path)",
        "baseline_off_cmd": "cd /repo && cargo test --workspace --no-fail-fast --offline",
        "source_commits": ["verif hooks: expose fast-check lattice operations and public-range dump under cfg(denoland_deno_graph_verif)"],
        "add_only": True,
    },
    "engines": [{
        "name": "coq-model+correspondence",
        "path": "tools/check",
        "serves_properties": [c["property_id"] for c in checks],
        "kind_free_text": "hand-written Gallina models with theorems (coq/), extracted to OCaml and run against the real crate on generated inputs by a Rust harness (harness/); tools/check orchestrates build, proof hygiene, correspondence, known-findings classification and evidence",
    }],
    "checks": checks,
    "not_applicable": na,
    "notes": "Technique family: machine-checked proof in Coq 8.16.1 with a checked model-to-code correspondence. See DESIGN.md.",
}
json.dump(m, open(os.path.join(ROOT, "MANIFEST.json"), "w"), indent=1)
print("claimed:", [c["property_id"] for c in checks])
