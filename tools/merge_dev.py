#!/usr/bin/env python3
"""Merge a dev-<PID> branch: take our version of the shared registry files and
re-apply the branch's additions (they are append-only by convention)."""
import json, re, subprocess, sys
pid = sys.argv[1]            # e.g. C06
pl = pid.lower()
br = 'dev-' + pid
def sh(c): return subprocess.run(c, shell=True, capture_output=True, text=True)
def theirs(path):
    r = sh('git show %s:%s' % (br, path)); return r.stdout
def ours(path):
    r = sh('git show HEAD:%s' % path); return r.stdout
base = sh('git merge-base HEAD %s' % br).stdout.strip()
def basef(path): return sh('git show %s:%s' % (base, path)).stdout

# _CoqProject: append lines new in theirs
o = ours('coq/_CoqProject').splitlines(); b = basef('coq/_CoqProject').splitlines()
new = [l for l in theirs('coq/_CoqProject').splitlines() if l not in b and l not in o]
open('coq/_CoqProject','w').write('\n'.join(o + new) + '\n')

# Extract.v: add modules + run fn
t = theirs('coq/Extract/Extract.v'); o = ours('coq/Extract/Extract.v'); b = basef('coq/Extract/Extract.v')
def req(s): return re.search(r'From DG Require Import (.*)\.\n', s).group(1).split()
def ext(s): return re.search(r'Extraction "model.ml" (.*)\.', s).group(1).split()
mods = req(o) + [m for m in req(t) if m not in req(b) and m not in req(o)]
fns = ext(o) + [f for f in ext(t) if f not in ext(b) and f not in ext(o)]
o = re.sub(r'From DG Require Import .*\.\n', 'From DG Require Import ' + ' '.join(mods) + '.\n', o)
o = re.sub(r'Extraction "model.ml" .*\.', 'Extraction "model.ml" ' + ' '.join(fns) + '.', o)
open('coq/Extract/Extract.v','w').write(o)

# dispatch.ml
o = ours('ocaml/dispatch.ml'); b = basef('ocaml/dispatch.ml')
new = [l for l in theirs('ocaml/dispatch.ml').splitlines() if l.strip().startswith('| "') and l not in b.splitlines() and l not in o.splitlines()]
o = o.replace('  | _ -> failwith', '\n'.join(new) + '\n  | _ -> failwith') if new else o
open('ocaml/dispatch.ml','w').write(o)

# harness main.rs / mod.rs
o = ours('harness/src/main.rs'); b = basef('harness/src/main.rs')
new = [l for l in theirs('harness/src/main.rs').splitlines() if '=> props::' in l and l not in b.splitlines() and l not in o.splitlines()]
if new:
    o = o.replace('    _ => {\n      eprintln!("unknown property', '\n'.join(new) + '\n    _ => {\n      eprintln!("unknown property')
# other additions (e.g. new `mod x;` lines)
newmods = [l for l in theirs('harness/src/main.rs').splitlines() if re.match(r'^mod \w+;', l) and l not in o.splitlines()]
for l in newmods:
    o = o.replace('mod world;', 'mod world;\n' + l)
open('harness/src/main.rs','w').write(o)
o = ours('harness/src/props/mod.rs'); b = basef('harness/src/props/mod.rs')
new = [l for l in theirs('harness/src/props/mod.rs').splitlines() if l not in b.splitlines() and l not in o.splitlines()]
open('harness/src/props/mod.rs','w').write(o + '\n'.join(new) + ('\n' if new else ''))

# known_findings.json
o = json.loads(ours('known_findings.json')); t = json.loads(theirs('known_findings.json'))
ids = {f['id'] for f in o['findings']}
o['findings'] += [f for f in t['findings'] if f['id'] not in ids]
json.dump(o, open('known_findings.json','w'), indent=1)

# props.py / manifest_texts.py: add the branch's dict entries
def entry(src, key):
    # text of the top-level dict entry `    "KEY": {` ... matching close at same indent
    m = re.search(r'^    "%s": \{\n' % key, src, re.M)
    if not m: return None
    i = m.start(); depth = 0; j = m.end() - 2
    k = j
    while True:
        c = src[k]
        if c == '{': depth += 1
        elif c == '}':
            depth -= 1
            if depth == 0: break
        k += 1
    end = src.index('\n', k) + 1
    return src[i:end]
o = ours('tools/props.py'); t = theirs('tools/props.py')
for q in [pid] + sys.argv[2:]:
    e = entry(t, q)
    o = o.rstrip()
    assert o.endswith('}')
    o = o[:-1].rstrip() + '\n' + e.rstrip().rstrip(',') + ',\n}\n'
open('tools/props.py','w').write(o)
o = ours('tools/manifest_texts.py'); t = theirs('tools/manifest_texts.py')
for q in [pid] + sys.argv[2:]:
    e = entry(t, q)
    o = o.replace('}\nNOT_YET = {}', e.rstrip().rstrip(',') + ',\n}\nNOT_YET = {}')
open('tools/manifest_texts.py','w').write(o)
print('merged shared files for', pid)
