#!/bin/bash
# rebuild coq + extracted driver (development helper) in the worktree this script lives in
R="$(cd "$(dirname "$(readlink -f "$0")")/.." && pwd)"
cd "$R/coq" && timeout 1800 make -j16 2>&1 | grep -v "^COQ\|Closed under" | tail -20
cd "$R" && python3 -c "
import sys; sys.path.insert(0,'tools')
import importlib.machinery, importlib.util
loader = importlib.machinery.SourceFileLoader('check', 'tools/check'); spec = importlib.util.spec_from_loader('check', loader); m = importlib.util.module_from_spec(spec); loader.exec_module(m)
ok,out=m.build_ocaml(force=True); print('ocaml',ok, '' if ok else out[-1500:])"
