TEXTS = {
    "C15": {
        "text": ("Coq theorems over an executable model of ModuleEntryIterator/ModuleGraphErrorIterator "
                 "(Model/Walk.v): termination for every graph, each specifier yielded at most once, the "
                 "yielded set equals the least set closed under the selected edges (C15_exact), entries "
                 "are the graph's own, the error listing is exactly the errors of visited entries. The "
                 "model is tied to the code on every run by differential execution of the extracted model "
                 "and the real iterator on thousands of real graphs x option sets x root subsets x skip "
                 "policies. Complete for the model; the tie to Rust is sampled."),
        "design_ref": "DESIGN.md section 5 C15",
        "note": ("Trusted: Coq kernel; extraction (ExtrOcamlBasic); the harness's abstraction of a real "
                 "ModuleGraph through its public API (interning of URLs/ranges/errors); URL scheme and "
                 "media type are data. Roots are a set (duplicates in the roots iterator are outside the "
                 "property's quantifier)."),
        "technique": "Coq proof (generic worklist/seen-set reachability theorem) + extracted-model differential testing",
    },
    "C02": {
        "text": ("Coq theorems over the executable model of ModuleGraphErrorIterator/validate/valid: for "
                 "follow_dynamic = false (which includes ModuleGraph::valid) validation succeeds iff no failure "
                 "is in the walk-selected set (C02_validate_iff, C02_valid_iff), code validation follows only "
                 "redirects and static code edges (C02_valid_edges), the reported error belongs to a visited "
                 "entry, and for any options a visited failure other than a Missing slot is never skipped. "
                 "The iff for follow_dynamic = true is refuted in the model and on the real code (known "
                 "finding F-C02a). The real verdicts of thousands of validations are judged by the extracted "
                 "decision procedure, which is proved equivalent to the declarative statement."),
        "design_ref": "DESIGN.md section 5 C02, section 6",
        "note": ("Trusted: Coq kernel; extraction; harness abstraction of the real graph; schemes, the "
                 "file:// literal test and error identities are data computed by the real crate. Graph-level: "
                 "unconditional on how the graph was built."),
        "technique": "Coq proof (iff between validate and a declarative reachability-of-failure relation) + proved decision procedure run on real verdicts",
    },
    "C14": {
        "text": ("Coq theorems over the executable model of ModuleGraph::resolve/get/contains/try_get/"
                 "try_get_prefer_types/resolve_dependency/specifiers: resolve needs at most 10 loop rounds on any "
                 "graph; on a chain of <= 9 hops it returns the chain end and is idempotent; when no intermediate "
                 "specifier owns an entry, get/contains/try_get return exactly what a walk reaches; specifiers() "
                 "lists one-hop redirect sources; type-preferring dependency resolution returns the loaded types "
                 "module, else the code module. The unrestricted statement is refuted by four vm_compute witnesses, "
                 "each confirmed on the real code (known findings F-C14a-d). Every real lookup of every specifier of "
                 "thousands of chain-heavy graphs is compared with the model and judged against the real walk."),
        "design_ref": "DESIGN.md section 5 C14, section 6",
        "note": ("Trusted: Coq kernel; extraction; harness abstraction. The link between the model's walk_end and the "
                 "real walk is checked per case (the real walk end is an input of the decision procedure), not proved "
                 "against Model/Walk.v."),
        "technique": "Coq proof (chain induction with seen-set invariant) + refutation witnesses + proved-model differential testing of all lookups",
    },
    "C13": {
        "text": ("Part (a) only. Coq theorems over an executable model of the serde codec of analysis::ModuleInfo at "
                 "serde_json::Value level (Model/Codec.v: every serde attribute of analysis.rs:18-290 and of "
                 "Position/PositionRange transcribed, decoders covering map and sequence forms, internally tagged / "
                 "untagged / flattened types and serde's buffered-content corner cases): decoding an encoding gives "
                 "back the value for ALL values (C13_roundtrip, C13_roundtrip_exact), also from any reordering of "
                 "object keys (C13_roundtrip_unordered: the decoder is insensitive to key order), the encoding is injective, "
                 "encodings have distinct object keys; and over module_graph_1_to_2: a dependency whose last leading "
                 "comment matches find_deno_types decodes with exactly that types specifier and all other fields "
                 "unchanged, leadingComments removed, entries without comments untouched, for every find_deno_types "
                 "function. Tied to the code on every run by differential execution (enumerated shapes, analysed "
                 "corpus sources, mutated JSON, generated v1 manifests) and by two proved decision procedures "
                 "evaluated on the real outputs. Part (b) (manifest shortcut equals parsing) is NOT claimed."),
        "design_ref": "DESIGN.md section 5 C13 (model a)",
        "note": ("Trusted: Coq kernel; extraction; harness abstraction of ModuleInfo/serde_json::Value to the wire "
                 "format; serde_json's text layer; the regex behind find_deno_types (data). The decoder model is "
                 "faithful on Values whose numbers are u64 < 2^62; usize arithmetic in the range computation is "
                 "unbounded in the model."),
        "technique": "Coq proof (encoder/decoder inversion, association-list reasoning) + extracted-model differential testing + proved decision procedures on real outputs",
    },
}
NOT_YET = {}
