TEXTS = {
    "C15": {
        "text": ("Coq theorems over an executable model of ModuleEntryIterator/ModuleGraphErrorIterator "
                 "(Model/Walk.v): termination for every graph, each specifier yielded at most once, the "
                 "yielded set equals the least set closed under the selected edges (C15_exact), entries "
                 "are the graph's own, the error listing is exactly the errors of visited entries. The "
                 "model is tied to the code on every run by differential execution of the extracted model "
                 "and the real iterator on thousands of real graphs x option sets x root subsets x skip "
                 "policies. Complete for the model; the tie to Rust is sampled."),
        "design_ref": "DESIGN.md section 5 C15",
        "note": ("Trusted: Coq kernel; extraction (ExtrOcamlBasic); the harness's abstraction of a real "
                 "ModuleGraph through its public API (interning of URLs/ranges/errors); URL scheme and "
                 "media type are data. Roots are a set (duplicates in the roots iterator are outside the "
                 "property's quantifier)."),
        "technique": "Coq proof (generic worklist/seen-set reachability theorem) + extracted-model differential testing",
    },
    "C02": {
        "text": ("Coq theorems over the executable model of ModuleGraphErrorIterator/validate/valid: for "
                 "follow_dynamic = false (which includes ModuleGraph::valid) validation succeeds iff no failure "
                 "is in the walk-selected set (C02_validate_iff, C02_valid_iff), code validation follows only "
                 "redirects and static code edges (C02_valid_edges), the reported error belongs to a visited "
                 "entry, and for any options a visited failure other than a Missing slot is never skipped. "
                 "The iff for follow_dynamic = true is refuted in the model and on the real code (known "
                 "finding F-C02a). The real verdicts of thousands of validations are judged by the extracted "
                 "decision procedure, which is proved equivalent to the declarative statement."),
        "design_ref": "DESIGN.md section 5 C02, section 6",
        "note": ("Trusted: Coq kernel; extraction; harness abstraction of the real graph; schemes, the "
                 "file:// literal test and error identities are data computed by the real crate. Graph-level: "
                 "unconditional on how the graph was built."),
        "technique": "Coq proof (iff between validate and a declarative reachability-of-failure relation) + proved decision procedure run on real verdicts",
    },
    "C14": {
        "text": ("Coq theorems over the executable model of ModuleGraph::resolve/get/contains/try_get/"
                 "try_get_prefer_types/resolve_dependency/specifiers: resolve needs at most 10 loop rounds on any "
                 "graph; on a chain of <= 9 hops it returns the chain end and is idempotent; when no intermediate "
                 "specifier owns an entry, get/contains/try_get return exactly what a walk reaches; specifiers() "
                 "lists one-hop redirect sources; type-preferring dependency resolution returns the loaded types "
                 "module, else the code module. The unrestricted statement is refuted by four vm_compute witnesses, "
                 "each confirmed on the real code (known findings F-C14a-d). Every real lookup of every specifier of "
                 "thousands of chain-heavy graphs is compared with the model and judged against the real walk."),
        "design_ref": "DESIGN.md section 5 C14, section 6",
        "note": ("Trusted: Coq kernel; extraction; harness abstraction. The link between the model's walk_end and the "
                 "real walk is checked per case (the real walk end is an input of the decision procedure), not proved "
                 "against Model/Walk.v."),
        "technique": "Coq proof (chain induction with seen-set invariant) + refutation witnesses + proved-model differential testing of all lookups",
    },
    "C17": {
        "text": ("Graph level: Coq theorems over the executable model of prune_types, for any graph: termination, the "
                 "pruned graph keeps exactly the entries/redirects whose key is code-reachable from the roots "
                 "(C17_entries), the code view of every kept entry is unchanged, nothing type-related is left, the "
                 "graph reports code-only with no imports. The real prune result is compared structurally with the "
                 "model's on every case. Build level: prune(build All) vs build CodeOnly is decided on the real code "
                 "by the extracted observational-equality function on thousands of proviso worlds; two genuine "
                 "divergences are recorded as known findings (F-C17a, F-C17b). The build-level theorem over a "
                 "builder model is not yet proved: partial."),
        "design_ref": "DESIGN.md section 5 C17, section 6",
        "note": ("Trusted: Coq kernel; extraction; harness abstraction and shared interning across the three graphs; "
                 "the code-only build is given no configured type imports; default build options."),
        "technique": "Coq proof (worklist reachability instance) + structural model/implementation comparison + relational check on real builds judged by extracted Coq function",
    },
    "C18": {
        "text": ("Graph level: Coq theorems over the executable model of segment: termination, identity when the "
                 "requested roots are roots, otherwise exactly the entries and redirects the (C15-characterised) "
                 "walk hands out, imports cloned. The unrestricted self-containedness claim is refuted "
                 "(C18_typesonly_refuted, known finding F-C18a). Per case on the real code: the real segment equals "
                 "the model's structurally; self-containedness is decided by an extracted function proved "
                 "equivalent to the declarative statement; entries are compared with a real direct build. Partial: "
                 "no theorem yet that segments of builder-produced graphs are self-contained / equal direct builds."),
        "design_ref": "DESIGN.md section 5 C18, section 6",
        "note": ("Trusted: Coq kernel; extraction; harness abstraction with shared interning; configured imports only "
                 "for graph kinds that include types; roots are plain (attribute-less) targets under the proviso."),
        "technique": "Coq proof (characterisation of segment via the walk theorem) + proved decision procedure on real segments + relational check against real direct builds",
    },
    "C06": {
        "text": ("Selection-function level of C06. Coq theorems over an executable model of packages.rs "
                 "(Model/Version.v: resolve_version, the tiers 1, 1.5, 2, 3 of JsrPackageVersionResolver::"
                 "resolve_version with the had_higher_date_version flag, NewestDependencyDateOptions::"
                 "get_for_package, matches_newest_dependency_date), for ALL version sets, rank functions, match "
                 "predicates, dates, existing and cached collections: the answer is characterised tier by tier "
                 "by a declarative 'highest element satisfying P' predicate (C06_select); the statement allows "
                 "exactly one answer when Version::cmp separates the versions, and otherwise answers differ only "
                 "between versions of Equal precedence (C06_select_unique, _up_to_rank); hence independence of "
                 "HashMap/iterator/HashSet order (C06_order_free); exclusion by exact name or prefix removes the "
                 "cutoff and nothing else does (C06_get_for_package, C06_excluded); the not-found error carries the "
                 "date iff a matching registry version was excluded by it (C06_error_flag). Order independence "
                 "without distinct ranks is refuted in the model and on the real code (known finding F-C06a: "
                 "versions differing in build metadata only). The real resolver is compared with the extracted "
                 "model on every registry info of <= 3 of 5 versions x yanked x 4 date positions (exhaustive over "
                 "existing/cached subsets in the thorough tier) and on sampled larger inputs; real answers under "
                 "two HashMap iteration orders are judged by the proved decision procedure."),
        "design_ref": "DESIGN.md section 5 C06",
        "note": ("Trusted: Coq kernel; extraction; the harness's interning of versions (identity = Eq) and its "
                 "computation of the rank (Version::cmp, checked to be a total preorder on each universe) and of the "
                 "match matrix (VersionReq::matches) with the real deno_semver. The cutoff comparison follows the "
                 "code (created < cutoff). NOT covered yet: graph-level resolution (Builder::resolve_jsr_nv, "
                 "jsr_unification_decides / cached-manifest probe, validate_jsr_specifier tag rejection, "
                 "fill_from_lockfile seeding, used_yanked_packages bookkeeping) - these need the builder model."),
        "technique": "Coq proof (loop invariant of the fold-max, refinement to a declarative best-of-tier spec, uniqueness) + bounded-exhaustive and sampled differential testing of the extracted model against the public API + proved decision procedure on real answers",
    },
    "C08": {
        "text": ("Layers (a) and (c') of DESIGN.md C08. (a) Coq theorems, for ALL texts (lists of Unicode scalar values: "
                 "non-ASCII, astral, CR, CRLF, BOM), over executable models of Position::from_source_pos as computed by "
                 "text_lines (Model/TextPos.v: LF is the only line break, columns count scalar values, an offset inside a "
                 "character has that character's position, a leading U+FEFF occupies no column), of the nine pragma "
                 "regexes + is_comment_triple_slash_reference with Rust-regex semantics (Model/Pragma.v: leftmost-first, "
                 "(?i) with the U+017F fold, Unicode White_Space, negated classes matching LF) and of "
                 "comment_source_to_position_range: offset<->position round trip on every character boundary "
                 "(C08_pos_roundtrip; the two exceptions - offset 0 of a BOM-led text, offsets inside a character - are "
                 "refuted by witnesses that agree with text_lines), monotonicity, every recogniser captures a contiguous "
                 "piece of the comment text lying directly between two quote characters unless quote-less "
                 "(C08_recognise_capture), and the headline C08_range_exact: for any prefix, comment kind, comment text "
                 "with a match, and suffix, the computed range mapped back onto the whole source is exactly the matched "
                 "specifier with its quotes; PositionRange/Dependency::includes and the first-match lookup return exactly "
                 "the dependency whose range contains the position when ranges of different dependencies share no "
                 "position (C08_lookup; touching ranges refuted because both ends are inclusive). (c') The REAL analyser "
                 "and the REAL graph module are run on every module source embedded in tests/specs/**/*.txt and on "
                 "thousands of generated programs; each reported range is mapped back with the extracted offset_of_pos "
                 "and judged by proved decision procedures (literal/quoted/quote-less slice equality with the cooked "
                 "value taken from the real parser, pairwise separation, planted = reported as multisets, lookups through "
                 "the real includes); pragma items are re-derived by the model from the real comment and must equal what "
                 "was reported; the recognisers are compared with the real regex functions on 500 000 comment texts and "
                 "pos_of_offset with text_lines on every byte offset of 20 000 texts. Two genuine defects are recorded "
                 "(F-C08a HTML-like comments: ranges off by one/two characters and a panic; F-C08b a quote-less pragma "
                 "capture that swallows a JSDoc import). Partial: the collector over real syntax is not modelled "
                 "(layer (b)); 'exactly once' is decided per generated program, not proved."),
        "design_ref": "DESIGN.md section 5 C08",
        "note": ("Trusted: Coq kernel; extraction; the harness's flattening of ModuleInfo into (category, kind, text, range) "
                 "items, its choice of the comment a pragma item sits in (nearest real comment), the cooking of a literal "
                 "by the real swc parser, the generator's bookkeeping of what it planted. The SWC parser, its comment "
                 "attachment rules and the monch JSDoc mini-parsers are not modelled: their output is judged. The "
                 "inverse map used for slicing is the model's own offset_of_pos (proved inverse of the modelled "
                 "text_lines map); the real PositionRange::as_source_range is additionally compared with it on every "
                 "reported range. tests/testdata holds only .wasm files (no module text to analyse)."),
        "technique": "Coq proof (structural induction on the text; parser-combinator style recognisers with a capture invariant) + extracted-model differential testing against regex/text_lines + proved decision procedures run on real analyser output (corpus and generated)",
    },
}
NOT_YET = {}
