TEXTS = {
    "C15": {
        "text": ("Coq theorems over an executable model of ModuleEntryIterator/ModuleGraphErrorIterator "
                 "(Model/Walk.v): termination for every graph, each specifier yielded at most once, the "
                 "yielded set equals the least set closed under the selected edges (C15_exact), entries "
                 "are the graph's own, the error listing is exactly the errors of visited entries. The "
                 "model is tied to the code on every run by differential execution of the extracted model "
                 "and the real iterator on thousands of real graphs x option sets x root subsets x skip "
                 "policies. Complete for the model; the tie to Rust is sampled."),
        "design_ref": "DESIGN.md section 5 C15",
        "note": ("Trusted: Coq kernel; extraction (ExtrOcamlBasic); the harness's abstraction of a real "
                 "ModuleGraph through its public API (interning of URLs/ranges/errors); URL scheme and "
                 "media type are data. Roots are a set (duplicates in the roots iterator are outside the "
                 "property's quantifier)."),
        "technique": "Coq proof (generic worklist/seen-set reachability theorem) + extracted-model differential testing",
    },
}
NOT_YET = {}
