TEXTS = {
    "C15": {
        "text": ("Coq theorems over an executable model of ModuleEntryIterator/ModuleGraphErrorIterator "
                 "(Model/Walk.v): termination for every graph, each specifier yielded at most once, the "
                 "yielded set equals the least set closed under the selected edges (C15_exact), entries "
                 "are the graph's own, the error listing is exactly the errors of visited entries. The "
                 "model is tied to the code on every run by differential execution of the extracted model "
                 "and the real iterator on thousands of real graphs x option sets x root subsets x skip "
                 "policies. Complete for the model; the tie to Rust is sampled."),
        "design_ref": "DESIGN.md section 5 C15",
        "note": ("Trusted: Coq kernel; extraction (ExtrOcamlBasic); the harness's abstraction of a real "
                 "ModuleGraph through its public API (interning of URLs/ranges/errors); URL scheme and "
                 "media type are data. Roots are a set (duplicates in the roots iterator are outside the "
                 "property's quantifier)."),
        "technique": "Coq proof (generic worklist/seen-set reachability theorem) + extracted-model differential testing",
    },
    "C02": {
        "text": ("Coq theorems over the executable model of ModuleGraphErrorIterator/validate/valid: for "
                 "follow_dynamic = false (which includes ModuleGraph::valid) validation succeeds iff no failure "
                 "is in the walk-selected set (C02_validate_iff, C02_valid_iff), code validation follows only "
                 "redirects and static code edges (C02_valid_edges), the reported error belongs to a visited "
                 "entry, and for any options a visited failure other than a Missing slot is never skipped. "
                 "The iff for follow_dynamic = true is refuted in the model and on the real code (known "
                 "finding F-C02a). The real verdicts of thousands of validations are judged by the extracted "
                 "decision procedure, which is proved equivalent to the declarative statement."),
        "design_ref": "DESIGN.md section 5 C02, section 6",
        "note": ("Trusted: Coq kernel; extraction; harness abstraction of the real graph; schemes, the "
                 "file:// literal test and error identities are data computed by the real crate. Graph-level: "
                 "unconditional on how the graph was built."),
        "technique": "Coq proof (iff between validate and a declarative reachability-of-failure relation) + proved decision procedure run on real verdicts",
    },
    "C14": {
        "text": ("Coq theorems over the executable model of ModuleGraph::resolve/get/contains/try_get/"
                 "try_get_prefer_types/resolve_dependency/specifiers: resolve needs at most 10 loop rounds on any "
                 "graph; on a chain of <= 9 hops it returns the chain end and is idempotent; when no intermediate "
                 "specifier owns an entry, get/contains/try_get return exactly what a walk reaches; specifiers() "
                 "lists one-hop redirect sources; type-preferring dependency resolution returns the loaded types "
                 "module, else the code module. The unrestricted statement is refuted by four vm_compute witnesses, "
                 "each confirmed on the real code (known findings F-C14a-d). Every real lookup of every specifier of "
                 "thousands of chain-heavy graphs is compared with the model and judged against the real walk."),
        "design_ref": "DESIGN.md section 5 C14, section 6",
        "note": ("Trusted: Coq kernel; extraction; harness abstraction. The link between the model's walk_end and the "
                 "real walk is checked per case (the real walk end is an input of the decision procedure), not proved "
                 "against Model/Walk.v."),
        "technique": "Coq proof (chain induction with seen-set invariant) + refutation witnesses + proved-model differential testing of all lookups",
    },
    "C17": {
        "text": ("Graph level: Coq theorems over the executable model of prune_types, for any graph: termination, the "
                 "pruned graph keeps exactly the entries/redirects whose key is code-reachable from the roots "
                 "(C17_entries), the code view of every kept entry is unchanged, nothing type-related is left, the "
                 "graph reports code-only with no imports. The real prune result is compared structurally with the "
                 "model's on every case. Build level: prune(build All) vs build CodeOnly is decided on the real code "
                 "by the extracted observational-equality function on thousands of proviso worlds; two genuine "
                 "divergences are recorded as known findings (F-C17a, F-C17b). The build-level theorem over a "
                 "builder model is not yet proved: partial."),
        "design_ref": "DESIGN.md section 5 C17, section 6",
        "note": ("Trusted: Coq kernel; extraction; harness abstraction and shared interning across the three graphs; "
                 "the code-only build is given no configured type imports; default build options."),
        "technique": "Coq proof (worklist reachability instance) + structural model/implementation comparison + relational check on real builds judged by extracted Coq function",
    },
    "C18": {
        "text": ("Graph level: Coq theorems over the executable model of segment: termination, identity when the "
                 "requested roots are roots, otherwise exactly the entries and redirects the (C15-characterised) "
                 "walk hands out, imports cloned. The unrestricted self-containedness claim is refuted "
                 "(C18_typesonly_refuted, known finding F-C18a). Per case on the real code: the real segment equals "
                 "the model's structurally; self-containedness is decided by an extracted function proved "
                 "equivalent to the declarative statement; entries are compared with a real direct build. Partial: "
                 "no theorem yet that segments of builder-produced graphs are self-contained / equal direct builds."),
        "design_ref": "DESIGN.md section 5 C18, section 6",
        "note": ("Trusted: Coq kernel; extraction; harness abstraction with shared interning; configured imports only "
                 "for graph kinds that include types; roots are plain (attribute-less) targets under the proviso."),
        "technique": "Coq proof (characterisation of segment via the walk theorem) + proved decision procedure on real segments + relational check against real direct builds",
    },
    "C06": {
        "text": ("Selection-function level of C06. Coq theorems over an executable model of packages.rs "
                 "(Model/Version.v: resolve_version, the tiers 1, 1.5, 2, 3 of JsrPackageVersionResolver::"
                 "resolve_version with the had_higher_date_version flag, NewestDependencyDateOptions::"
                 "get_for_package, matches_newest_dependency_date), for ALL version sets, rank functions, match "
                 "predicates, dates, existing and cached collections: the answer is characterised tier by tier "
                 "by a declarative 'highest element satisfying P' predicate (C06_select); the statement allows "
                 "exactly one answer when Version::cmp separates the versions, and otherwise answers differ only "
                 "between versions of Equal precedence (C06_select_unique, _up_to_rank); hence independence of "
                 "HashMap/iterator/HashSet order (C06_order_free); exclusion by exact name or prefix removes the "
                 "cutoff and nothing else does (C06_get_for_package, C06_excluded); the not-found error carries the "
                 "date iff a matching registry version was excluded by it (C06_error_flag). Order independence "
                 "without distinct ranks is refuted in the model and on the real code (known finding F-C06a: "
                 "versions differing in build metadata only). The real resolver is compared with the extracted "
                 "model on every registry info of <= 3 of 5 versions x yanked x 4 date positions (exhaustive over "
                 "existing/cached subsets in the thorough tier) and on sampled larger inputs; real answers under "
                 "two HashMap iteration orders are judged by the proved decision procedure."),
        "design_ref": "DESIGN.md section 5 C06",
        "note": ("Trusted: Coq kernel; extraction; the harness's interning of versions (identity = Eq) and its "
                 "computation of the rank (Version::cmp, checked to be a total preorder on each universe) and of the "
                 "match matrix (VersionReq::matches) with the real deno_semver. The cutoff comparison follows the "
                 "code (created < cutoff). NOT covered yet: graph-level resolution (Builder::resolve_jsr_nv, "
                 "jsr_unification_decides / cached-manifest probe, validate_jsr_specifier tag rejection, "
                 "fill_from_lockfile seeding, used_yanked_packages bookkeeping) - these need the builder model."),
        "technique": "Coq proof (loop invariant of the fold-max, refinement to a declarative best-of-tier spec, uniqueness) + bounded-exhaustive and sampled differential testing of the extracted model against the public API + proved decision procedure on real answers",
    },
    "C16": {
        "text": ("(a) Export resolution: Coq theorems over an executable model of exports_and_re_exports_inner / "
                 "exports_and_re_exports / ModuleInfoRef::exports with the shared visited set (Model/Symbols.v), for ALL "
                 "module tables: the set of names resolved at a module equals its own names plus the non-default own "
                 "names of every module reachable through one or more resolved star re-exports (least fixed point, "
                 "C16_exports_set), an own name resolves to the module's own binding (C16_own_first), fuel = number of "
                 "modules suffices with cyclic re-exports (C16_terminates); which binding an ambiguous name lands on is "
                 "first-found and not part of the statement. The complete real resolved map (with re-export paths) and "
                 "unresolved list of every module of every explored program is compared with the extracted model, and "
                 "the real name set is judged by a decision procedure proved equivalent to the declarative statement. "
                 "(b) Tree shape: the 3100-line SymbolFiller is NOT modelled; wf_symtabb is proved sound "
                 "(C16_wf_checker_sound: unique ids, parentless root, every other symbol has an existing parent and - if "
                 "all its declarations are definitions - is listed there exactly once among children+members and not in "
                 "both, alias symbols are not listed, every listed id exists and has the lister as parent, parent chains "
                 "reach the root, root paths are unique and exist for definition chains, export ids exist, declarations "
                 "carry the symbol's name and a range inside the text) and run on the real table of every module of the "
                 "symbol/graph spec corpus and of generated programs. (c) go-to-definition: find_definition_paths_internal / "
                 "go_to_file_export are modelled for the fragment without qualified names; for ALL tables the model "
                 "terminates with fuel = number of symbols + 1 and yields only existing Definition declarations or "
                 "explicit markers (C16_goto_terminates_partial, C16_goto_sound_partial); the real ordered results of "
                 "every symbol are compared with the model on every program without an `import X = A.B` declaration. "
                 "Qualified names are not modelled - with them termination is false (F-C16c); there the real queries "
                 "run under a watchdog and their results are judged by a proved-sound checker. Three genuine defects are recorded as known findings: "
                 "F-C16a (valid TypeScript: a dotted namespace segment re-declared in its body becomes its own child), "
                 "F-C16b (TypeScript-invalid conflicting declarations yield mixed alias/definition symbols; includes one "
                 "of the repository's own specs), F-C16c (a circular import alias makes go-to-definition overflow the "
                 "stack)."),
        "design_ref": "DESIGN.md section 5 C16",
        "note": ("Trusted: Coq kernel; extraction; the harness's dump of the symbol tables through the public API "
                 "(ids from SymbolId's Debug form, names interned, ranges relative to the text start), its TS program "
                 "generator, the spec-file parser, and - for known-finding classification only - its computation of the "
                 "three input classes from the swc AST of the sources. (b) and (c) are translation validation of explored "
                 "outputs, not proofs about the builder; termination of go-to-definition through qualified names is "
                 "observed (5 s watchdog, child process for the known crashing class), not proved; the harness also "
                 "supplies, per declaration, the symbol an swc id maps to and resolve_dependency's answer (data)."),
        "technique": "Coq proof (DFS with shared visited set: invariant + closure argument giving the least fixed point; fuel bound) + differential testing of the extracted model against ModuleInfoRef::exports + proved-sound checkers (translation validation) on real symbol tables and go-to-definition results + watchdog",
    },
}
NOT_YET = {}
