TEXTS = {
    "C15": {
        "text": ("Coq theorems over an executable model of ModuleEntryIterator/ModuleGraphErrorIterator "
                 "(Model/Walk.v): termination for every graph, each specifier yielded at most once, the "
                 "yielded set equals the least set closed under the selected edges (C15_exact), entries "
                 "are the graph's own, the error listing is exactly the errors of visited entries. The "
                 "model is tied to the code on every run by differential execution of the extracted model "
                 "and the real iterator on thousands of real graphs x option sets x root subsets x skip "
                 "policies. Complete for the model; the tie to Rust is sampled."),
        "design_ref": "DESIGN.md section 5 C15",
        "note": ("Trusted: Coq kernel; extraction (ExtrOcamlBasic); the harness's abstraction of a real "
                 "ModuleGraph through its public API (interning of URLs/ranges/errors); URL scheme and "
                 "media type are data. Roots are a set (duplicates in the roots iterator are outside the "
                 "property's quantifier)."),
        "technique": "Coq proof (generic worklist/seen-set reachability theorem) + extracted-model differential testing",
    },
    "C02": {
        "text": ("Coq theorems over the executable model of ModuleGraphErrorIterator/validate/valid: for "
                 "follow_dynamic = false (which includes ModuleGraph::valid) validation succeeds iff no failure "
                 "is in the walk-selected set (C02_validate_iff, C02_valid_iff), code validation follows only "
                 "redirects and static code edges (C02_valid_edges), the reported error belongs to a visited "
                 "entry, and for any options a visited failure other than a Missing slot is never skipped. "
                 "The iff for follow_dynamic = true is refuted in the model and on the real code (known "
                 "finding F-C02a). The real verdicts of thousands of validations are judged by the extracted "
                 "decision procedure, which is proved equivalent to the declarative statement."),
        "design_ref": "DESIGN.md section 5 C02, section 6",
        "note": ("Trusted: Coq kernel; extraction; harness abstraction of the real graph; schemes, the "
                 "file:// literal test and error identities are data computed by the real crate. Graph-level: "
                 "unconditional on how the graph was built."),
        "technique": "Coq proof (iff between validate and a declarative reachability-of-failure relation) + proved decision procedure run on real verdicts",
    },
    "C14": {
        "text": ("Coq theorems over the executable model of ModuleGraph::resolve/get/contains/try_get/"
                 "try_get_prefer_types/resolve_dependency/specifiers: resolve needs at most 10 loop rounds on any "
                 "graph; on a chain of <= 9 hops it returns the chain end and is idempotent; when no intermediate "
                 "specifier owns an entry, get/contains/try_get return exactly what a walk reaches; specifiers() "
                 "lists one-hop redirect sources; type-preferring dependency resolution returns the loaded types "
                 "module, else the code module. The unrestricted statement is refuted by four vm_compute witnesses, "
                 "each confirmed on the real code (known findings F-C14a-d). Every real lookup of every specifier of "
                 "thousands of chain-heavy graphs is compared with the model and judged against the real walk."),
        "design_ref": "DESIGN.md section 5 C14, section 6",
        "note": ("Trusted: Coq kernel; extraction; harness abstraction. The link between the model's walk_end and the "
                 "real walk is checked per case (the real walk end is an input of the decision procedure), not proved "
                 "against Model/Walk.v."),
        "technique": "Coq proof (chain induction with seen-set invariant) + refutation witnesses + proved-model differential testing of all lookups",
    },
    "C17": {
        "text": ("Graph level: Coq theorems over the executable model of prune_types, for any graph: termination, the "
                 "pruned graph keeps exactly the entries/redirects whose key is code-reachable from the roots "
                 "(C17_entries), the code view of every kept entry is unchanged, nothing type-related is left, the "
                 "graph reports code-only with no imports. The real prune result is compared structurally with the "
                 "model's on every case. Build level: prune(build All) vs build CodeOnly is decided on the real code "
                 "by the extracted observational-equality function on thousands of proviso worlds; two genuine "
                 "divergences are recorded as known findings (F-C17a, F-C17b). The build-level theorem over a "
                 "builder model is not yet proved: partial."),
        "design_ref": "DESIGN.md section 5 C17, section 6",
        "note": ("Trusted: Coq kernel; extraction; harness abstraction and shared interning across the three graphs; "
                 "the code-only build is given no configured type imports; default build options."),
        "technique": "Coq proof (worklist reachability instance) + structural model/implementation comparison + relational check on real builds judged by extracted Coq function",
    },
    "C18": {
        "text": ("Graph level: Coq theorems over the executable model of segment: termination, identity when the "
                 "requested roots are roots, otherwise exactly the entries and redirects the (C15-characterised) "
                 "walk hands out, imports cloned. The unrestricted self-containedness claim is refuted "
                 "(C18_typesonly_refuted, known finding F-C18a). Per case on the real code: the real segment equals "
                 "the model's structurally; self-containedness is decided by an extracted function proved "
                 "equivalent to the declarative statement; entries are compared with a real direct build. Partial: "
                 "no theorem yet that segments of builder-produced graphs are self-contained / equal direct builds."),
        "design_ref": "DESIGN.md section 5 C18, section 6",
        "note": ("Trusted: Coq kernel; extraction; harness abstraction with shared interning; configured imports only "
                 "for graph kinds that include types; roots are plain (attribute-less) targets under the proviso."),
        "technique": "Coq proof (characterisation of segment via the walk theorem) + proved decision procedure on real segments + relational check against real direct builds",
    },
}
NOT_YET = {}
