TEXTS = {
    "C15": {
        "text": ("Coq theorems over an executable model of ModuleEntryIterator/ModuleGraphErrorIterator "
                 "(Model/Walk.v): termination for every graph, each specifier yielded at most once, the "
                 "yielded set equals the least set closed under the selected edges (C15_exact), entries "
                 "are the graph's own, the error listing is exactly the errors of visited entries. The "
                 "model is tied to the code on every run by differential execution of the extracted model "
                 "and the real iterator on thousands of real graphs x option sets x root subsets x skip "
                 "policies. Complete for the model; the tie to Rust is sampled."),
        "design_ref": "DESIGN.md section 5 C15",
        "note": ("Trusted: Coq kernel; extraction (ExtrOcamlBasic); the harness's abstraction of a real "
                 "ModuleGraph through its public API (interning of URLs/ranges/errors); URL scheme and "
                 "media type are data. Roots are a set (duplicates in the roots iterator are outside the "
                 "property's quantifier)."),
        "technique": "Coq proof (generic worklist/seen-set reachability theorem) + extracted-model differential testing",
    },
    "C02": {
        "text": ("Coq theorems over the executable model of ModuleGraphErrorIterator/validate/valid: for "
                 "follow_dynamic = false (which includes ModuleGraph::valid) validation succeeds iff no failure "
                 "is in the walk-selected set (C02_validate_iff, C02_valid_iff), code validation follows only "
                 "redirects and static code edges (C02_valid_edges), the reported error belongs to a visited "
                 "entry, and for any options a visited failure other than a Missing slot is never skipped. "
                 "The iff for follow_dynamic = true is refuted in the model and on the real code (known "
                 "finding F-C02a). The real verdicts of thousands of validations are judged by the extracted "
                 "decision procedure, which is proved equivalent to the declarative statement."),
        "design_ref": "DESIGN.md section 5 C02, section 6",
        "note": ("Trusted: Coq kernel; extraction; harness abstraction of the real graph; schemes, the "
                 "file:// literal test and error identities are data computed by the real crate. Graph-level: "
                 "unconditional on how the graph was built."),
        "technique": "Coq proof (iff between validate and a declarative reachability-of-failure relation) + proved decision procedure run on real verdicts",
    },
    "C14": {
        "text": ("Coq theorems over the executable model of ModuleGraph::resolve/get/contains/try_get/"
                 "try_get_prefer_types/resolve_dependency/specifiers: resolve needs at most 10 loop rounds on any "
                 "graph; on a chain of <= 9 hops it returns the chain end and is idempotent; when no intermediate "
                 "specifier owns an entry, get/contains/try_get return exactly what a walk reaches; specifiers() "
                 "lists one-hop redirect sources; type-preferring dependency resolution returns the loaded types "
                 "module, else the code module. The unrestricted statement is refuted by four vm_compute witnesses, "
                 "each confirmed on the real code (known findings F-C14a-d). Every real lookup of every specifier of "
                 "thousands of chain-heavy graphs is compared with the model and judged against the real walk."),
        "design_ref": "DESIGN.md section 5 C14, section 6",
        "note": ("Trusted: Coq kernel; extraction; harness abstraction. The link between the model's walk_end and the "
                 "real walk is checked per case (the real walk end is an input of the decision procedure), not proved "
                 "against Model/Walk.v."),
        "technique": "Coq proof (chain induction with seen-set invariant) + refutation witnesses + proved-model differential testing of all lookups",
    },
    "C20": {
        "text": ("Coq theorems over an executable byte-level model (Model/Text.v) of new_source_with_text, "
                 "resolve_media_type_and_charset_from_content_type, detect_charset, encoding_rs for_label (UTF-8/UTF-16 "
                 "labels) + decode_without_bom_handling (WHATWG UTF-8 state machine, UTF-16LE/BE with surrogate/odd-length "
                 "replacement, borrow rule), decode_arc_source_detail, try_get_original_bytes and size, for ALL headers, "
                 "byte strings and oracle answers: original bytes are None or exactly the loader's bytes; the stored text "
                 "is the UTF-8 encoding of the WHATWG decoding with one leading U+FEFF removed (although the code "
                 "borrows the input when it can); each decoded kind is characterised by an iff on the input "
                 "(Unchanged <-> decoder borrows and no BOM; OnlyUtf8Bom <-> UTF-8 label, well-formed, BOM; Changed "
                 "<-> decoder does not borrow); decode error <-> unsupported label; size = text length; the text is "
                 "well-formed UTF-8; validator = declarative well-formedness; decoders invert encoders. The JSR deferred "
                 "content fill drops the response headers: there the decoding clause is proved only for headers naming "
                 "no charset or UTF-8 and refuted otherwise (known finding F-C20a, confirmed on the real code every run). Tied to the "
                 "code by exhaustive bounded + random differential execution over ~1.1 million (bytes, header, scheme, "
                 "media, route) combinations per quick run through parse_module, real graph builds and real JSR package builds (deferred and cached)."),
        "design_ref": "DESIGN.md section 5 C20",
        "note": ("Trusted: Coq kernel; extraction; harness (generators, oracle call into encoding_rs for legacy labels, "
                 "observation of Module values through the public API). Legacy encodings are oracle data, not modelled. "
                 "DESIGN's sketch of C20_unchanged_iff was corrected to the code: legacy ASCII-compatible labels on "
                 "pure-ASCII input also yield Unchanged."),
        "technique": "Coq proof (encoder/decoder/validator algebra, BOM stripping byte-level vs scalar-level) + proved decision procedure on real observations + exhaustive bounded differential testing",
    },
}
NOT_YET = {}
