TEXTS = {
    "C15": {
        "text": ("Coq theorems over an executable model of ModuleEntryIterator/ModuleGraphErrorIterator "
                 "(Model/Walk.v): termination for every graph, each specifier yielded at most once, the "
                 "yielded set equals the least set closed under the selected edges (C15_exact), entries "
                 "are the graph's own, the error listing is exactly the errors of visited entries. The "
                 "model is tied to the code on every run by differential execution of the extracted model "
                 "and the real iterator on thousands of real graphs x option sets x root subsets x skip "
                 "policies. Complete for the model; the tie to Rust is sampled."),
        "design_ref": "DESIGN.md section 5 C15",
        "note": ("Trusted: Coq kernel; extraction (ExtrOcamlBasic); the harness's abstraction of a real "
                 "ModuleGraph through its public API (interning of URLs/ranges/errors); URL scheme and "
                 "media type are data. Roots are a set (duplicates in the roots iterator are outside the "
                 "property's quantifier)."),
        "technique": "Coq proof (generic worklist/seen-set reachability theorem) + extracted-model differential testing",
    },
    "C02": {
        "text": ("Coq theorems over the executable model of ModuleGraphErrorIterator/validate/valid: for "
                 "follow_dynamic = false (which includes ModuleGraph::valid) validation succeeds iff no failure "
                 "is in the walk-selected set (C02_validate_iff, C02_valid_iff), code validation follows only "
                 "redirects and static code edges (C02_valid_edges), the reported error belongs to a visited "
                 "entry, and for any options a visited failure other than a Missing slot is never skipped. "
                 "The iff for follow_dynamic = true is refuted in the model and on the real code (known "
                 "finding F-C02a). The real verdicts of thousands of validations are judged by the extracted "
                 "decision procedure, which is proved equivalent to the declarative statement."),
        "design_ref": "DESIGN.md section 5 C02, section 6",
        "note": ("Trusted: Coq kernel; extraction; harness abstraction of the real graph; schemes, the "
                 "file:// literal test and error identities are data computed by the real crate. Graph-level: "
                 "unconditional on how the graph was built."),
        "technique": "Coq proof (iff between validate and a declarative reachability-of-failure relation) + proved decision procedure run on real verdicts",
    },
    "C14": {
        "text": ("Coq theorems over the executable model of ModuleGraph::resolve/get/contains/try_get/"
                 "try_get_prefer_types/resolve_dependency/specifiers: resolve needs at most 10 loop rounds on any "
                 "graph; on a chain of <= 9 hops it returns the chain end and is idempotent; when no intermediate "
                 "specifier owns an entry, get/contains/try_get return exactly what a walk reaches; specifiers() "
                 "lists one-hop redirect sources; type-preferring dependency resolution returns the loaded types "
                 "module, else the code module. The unrestricted statement is refuted by four vm_compute witnesses, "
                 "each confirmed on the real code (known findings F-C14a-d). Every real lookup of every specifier of "
                 "thousands of chain-heavy graphs is compared with the model and judged against the real walk."),
        "design_ref": "DESIGN.md section 5 C14, section 6",
        "note": ("Trusted: Coq kernel; extraction; harness abstraction. The link between the model's walk_end and the "
                 "real walk is checked per case (the real walk end is an input of the decision procedure), not proved "
                 "against Model/Walk.v."),
        "technique": "Coq proof (chain induction with seen-set invariant) + refutation witnesses + proved-model differential testing of all lookups",
    },
    "C07": {
        "text": ("Coq theorems over executable models of recommended_registry_package_url(_to_nv) (strings as code "
                 "point lists, with Version::parse_standard modelled down to the monch combinators), "
                 "normalized_export_name, JsrPackageVersionInfo::export/exports and the PackageSpecifiers table as a "
                 "state machine. Proved for all inputs: parse(print v) = v and every accepted text yields a printable "
                 "version; to_nv(pkg_url(nv) ++ path) = nv for every plain http(s) directory registry URL, scope/name "
                 "package and version, hence a URL under one package is never attributed to another; outside four input "
                 "classes the converted URL lies under the package it is attributed to; exports() lists exactly what "
                 "export() resolves (last repeated key wins, non-strings ignored); for every operation history the table "
                 "refines a history specification (last add_nv wins up to Ord, first-insertion-ordered distinct versions "
                 "per name, export/dependency sets per ensured package) and stops exactly at the first add_dependency/"
                 "add_export on a package that was never ensured. The unrestricted no-misattribution statement is refuted "
                 "by four witnesses confirmed on the real code (known findings F-C07a-d). Partial: the builder-level part "
                 "of C07 is not in this check."),
        "design_ref": "DESIGN.md section 5 C07",
        "note": ("Trusted: Coq kernel; extraction; harness abstraction (strings to code points, interning of requirements / "
                 "name@versions by the real Eq with Ord classes from the real cmp). Url::join outside the modelled domain and "
                 "serde_json's reading of the manifest text are data from the real crates. Five of the table's mutators are "
                 "pub(crate) and are not exercised on the real code by this check."),
        "technique": "Coq proof (string-level parser inversion, refinement of a state machine to a history specification by invariant) + refutation witnesses + extracted-model differential testing incl. exhaustive short version texts",
    },
}
NOT_YET = {}
