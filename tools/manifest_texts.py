TEXTS = {
    "C15": {
        "text": ("Coq theorems over an executable model of ModuleEntryIterator/ModuleGraphErrorIterator "
                 "(Model/Walk.v): termination for every graph, each specifier yielded at most once, the "
                 "yielded set equals the least set closed under the selected edges (C15_exact), entries "
                 "are the graph's own, the error listing is exactly the errors of visited entries. The "
                 "model is tied to the code on every run by differential execution of the extracted model "
                 "and the real iterator on thousands of real graphs x option sets x root subsets x skip "
                 "policies. Complete for the model; the tie to Rust is sampled."),
        "design_ref": "DESIGN.md section 5 C15",
        "note": ("Trusted: Coq kernel; extraction (ExtrOcamlBasic); the harness's abstraction of a real "
                 "ModuleGraph through its public API (interning of URLs/ranges/errors); URL scheme and "
                 "media type are data. Roots are a set (duplicates in the roots iterator are outside the "
                 "property's quantifier)."),
        "technique": "Coq proof (generic worklist/seen-set reachability theorem) + extracted-model differential testing",
    },
    "C02": {
        "text": ("Coq theorems over the executable model of ModuleGraphErrorIterator/validate/valid: for "
                 "follow_dynamic = false (which includes ModuleGraph::valid) validation succeeds iff no failure "
                 "is in the walk-selected set (C02_validate_iff, C02_valid_iff), code validation follows only "
                 "redirects and static code edges (C02_valid_edges), the reported error belongs to a visited "
                 "entry, and for any options a visited failure other than a Missing slot is never skipped. "
                 "The iff for follow_dynamic = true is refuted in the model and on the real code (known "
                 "finding F-C02a). The real verdicts of thousands of validations are judged by the extracted "
                 "decision procedure, which is proved equivalent to the declarative statement."),
        "design_ref": "DESIGN.md section 5 C02, section 6",
        "note": ("Trusted: Coq kernel; extraction; harness abstraction of the real graph; schemes, the "
                 "file:// literal test and error identities are data computed by the real crate. Graph-level: "
                 "unconditional on how the graph was built."),
        "technique": "Coq proof (iff between validate and a declarative reachability-of-failure relation) + proved decision procedure run on real verdicts",
    },
    "C14": {
        "text": ("Coq theorems over the executable model of ModuleGraph::resolve/get/contains/try_get/"
                 "try_get_prefer_types/resolve_dependency/specifiers: resolve needs at most 10 loop rounds on any "
                 "graph; on a chain of <= 9 hops it returns the chain end and is idempotent; when no intermediate "
                 "specifier owns an entry, get/contains/try_get return exactly what a walk reaches; specifiers() "
                 "lists one-hop redirect sources; type-preferring dependency resolution returns the loaded types "
                 "module, else the code module. The unrestricted statement is refuted by four vm_compute witnesses, "
                 "each confirmed on the real code (known findings F-C14a-d). Every real lookup of every specifier of "
                 "thousands of chain-heavy graphs is compared with the model and judged against the real walk."),
        "design_ref": "DESIGN.md section 5 C14, section 6",
        "note": ("Trusted: Coq kernel; extraction; harness abstraction. The link between the model's walk_end and the "
                 "real walk is checked per case (the real walk end is an input of the decision procedure), not proved "
                 "against Model/Walk.v."),
        "technique": "Coq proof (chain induction with seen-set invariant) + refutation witnesses + proved-model differential testing of all lookups",
    },
    "C17": {
        "text": ("Graph level: Coq theorems over the executable model of prune_types, for any graph: termination, the "
                 "pruned graph keeps exactly the entries/redirects whose key is code-reachable from the roots "
                 "(C17_entries), the code view of every kept entry is unchanged, nothing type-related is left, the "
                 "graph reports code-only with no imports. The real prune result is compared structurally with the "
                 "model's on every case. Build level: prune(build All) vs build CodeOnly is decided on the real code "
                 "by the extracted observational-equality function on thousands of proviso worlds; two genuine "
                 "divergences are recorded as known findings (F-C17a, F-C17b). The build-level theorem over a "
                 "builder model is not yet proved: partial."),
        "design_ref": "DESIGN.md section 5 C17, section 6",
        "note": ("Trusted: Coq kernel; extraction; harness abstraction and shared interning across the three graphs; "
                 "the code-only build is given no configured type imports; default build options."),
        "technique": "Coq proof (worklist reachability instance) + structural model/implementation comparison + relational check on real builds judged by extracted Coq function",
    },
    "C18": {
        "text": ("Graph level: Coq theorems over the executable model of segment: termination, identity when the "
                 "requested roots are roots, otherwise exactly the entries and redirects the (C15-characterised) "
                 "walk hands out, imports cloned. The unrestricted self-containedness claim is refuted "
                 "(C18_typesonly_refuted, known finding F-C18a). Per case on the real code: the real segment equals "
                 "the model's structurally; self-containedness is decided by an extracted function proved "
                 "equivalent to the declarative statement; entries are compared with a real direct build. Partial: "
                 "no theorem yet that segments of builder-produced graphs are self-contained / equal direct builds."),
        "design_ref": "DESIGN.md section 5 C18, section 6",
        "note": ("Trusted: Coq kernel; extraction; harness abstraction with shared interning; configured imports only "
                 "for graph kinds that include types; roots are plain (attribute-less) targets under the proviso."),
        "technique": "Coq proof (characterisation of segment via the walk theorem) + proved decision procedure on real segments + relational check against real direct builds",
    },
    "C06": {
        "text": ("Selection-function level of C06. Coq theorems over an executable model of packages.rs "
                 "(Model/Version.v: resolve_version, the tiers 1, 1.5, 2, 3 of JsrPackageVersionResolver::"
                 "resolve_version with the had_higher_date_version flag, NewestDependencyDateOptions::"
                 "get_for_package, matches_newest_dependency_date), for ALL version sets, rank functions, match "
                 "predicates, dates, existing and cached collections: the answer is characterised tier by tier "
                 "by a declarative 'highest element satisfying P' predicate (C06_select); the statement allows "
                 "exactly one answer when Version::cmp separates the versions, and otherwise answers differ only "
                 "between versions of Equal precedence (C06_select_unique, _up_to_rank); hence independence of "
                 "HashMap/iterator/HashSet order (C06_order_free); exclusion by exact name or prefix removes the "
                 "cutoff and nothing else does (C06_get_for_package, C06_excluded); the not-found error carries the "
                 "date iff a matching registry version was excluded by it (C06_error_flag). Order independence "
                 "without distinct ranks is refuted in the model and on the real code (known finding F-C06a: "
                 "versions differing in build metadata only). The real resolver is compared with the extracted "
                 "model on every registry info of <= 3 of 5 versions x yanked x 4 date positions (exhaustive over "
                 "existing/cached subsets in the thorough tier) and on sampled larger inputs; real answers under "
                 "two HashMap iteration orders are judged by the proved decision procedure."),
        "design_ref": "DESIGN.md section 5 C06",
        "note": ("Trusted: Coq kernel; extraction; the harness's interning of versions (identity = Eq) and its "
                 "computation of the rank (Version::cmp, checked to be a total preorder on each universe) and of the "
                 "match matrix (VersionReq::matches) with the real deno_semver. The cutoff comparison follows the "
                 "code (created < cutoff). NOT covered yet: graph-level resolution (Builder::resolve_jsr_nv, "
                 "jsr_unification_decides / cached-manifest probe, validate_jsr_specifier tag rejection, "
                 "fill_from_lockfile seeding, used_yanked_packages bookkeeping) - these need the builder model."),
        "technique": "Coq proof (loop invariant of the fold-max, refinement to a declarative best-of-tier spec, uniqueness) + bounded-exhaustive and sampled differential testing of the extracted model against the public API + proved decision procedure on real answers",
    },
    "C01": {
        "text": ("An executable Coq model of the builder (Model/Builder.v, stage B1: URL/node/redirect/external/asset/"
                 "deferred/dynamic/types/configured imports, acceptance logic of parse_module_source_and_info) is "
                 "compared on every run with the REAL builder on thousands of generated worlds: full structural "
                 "equality of entries, structured errors with referrers, redirects, dependency lists, loader calls. "
                 "Proved for every world, graph kind and option set (C01_complete, by an invariant over every step "
                 "of the build loop): after a completed build nothing reachable is absent - every root, configured "
                 "import target and followed dependency target of every module entry is settled (following recorded "
                 "redirects reaches an entry). Also: at most one entry per specifier, no pending entry, recorded "
                 "dependencies are the parser's declaration adjusted only by graph kind. The converse (nothing "
                 "unreachable is present) is proved for stage B1 on worlds whose answers report the requested specifier "
                 "as the final one and whose modules declare no asset imports, with or without an npm resolver (C01_b1_sound, an "
                 "invariant over every loop step); it is refuted outside those hypotheses (F-C01c: an asset-request "
                 "error replaces a module entry; aliases; the registry stage: F-C01a/b) and judged per case on every "
                 "alias-free world by procedures proved sound (C01_b1_judge_sound, C01_registry_judge_sound): PARTIAL."),
        "design_ref": "DESIGN.md section 5 C01",
        "note": ("Trusted: Coq kernel; extraction; the harness's world abstraction (each module's declaration comes "
                 "from the real parse_module; media types from the real header resolution; interning). Not modelled in "
                 "this stage: source maps, non-utf-8 sources (the registry is a second model, Jsr.v)."),
        "technique": "executable Coq model of the builder state machine + invariant proofs + differential testing against the real builder",
    },
    "C03": {
        "text": ("Coq theorem over the builder model: for every world (every assignment of faults) a completed build "
                 "leaves no entry pending, by an invariant preserved by every step of the build loop; every loader "
                 "failure becomes an error entry under the error's own specifier. Fault enumeration on the real code: "
                 "all 6561 response assignments of a 4-specifier base world (3 worlds in the thorough tier) plus "
                 "sampled worlds, each checked for panics, INTERNAL ERROR, pending entries, error placement/referrers, "
                 "fault locality against the fault-free build, and equality with the model. The machinery found a "
                 "genuine pending-entry defect (self-redirect) and a genuine non-termination (F-C03e), both repaired by fix: "
                 "commits. Termination of the URL-stage build loop is now a theorem (C03_terminates: every iteration "
                 "strictly decreases a measure, for every world and starting graph; the model's fuel is computed from it, "
                 "so build and reload never return None); for the registry stage termination is checked per case "
                 "(fuel never exhausted, watchdog on the real build): PARTIAL there."),
        "design_ref": "DESIGN.md section 5 C03, section 6",
        "note": "Trusted: as C01. catch_unwind around the real build; a harness panic is reported as a violation too.",
        "technique": "Coq invariant proof over the builder model + exhaustive fault enumeration on the real code",
    },
    "C04": {
        "text": ("Coq theorems over a scheduler refinement of the builder model (Model/Sched.v): whatever order "
                 "outstanding loads complete in and whenever the build is polled, a build that completes ends in the "
                 "state of the sequential loop (C04_schedule_independent, C04_scheduled_equals_sequential). On the "
                 "real code each world is built under random completion schedules through gated futures and "
                 "repeatedly in one process; all observations (graph JSON + errors with referrer ranges) must be "
                 "identical and equal the model's graph. The machinery found hash-order dependence of error referrers "
                 "(F-C04a), repaired by a fix: commit. Partial: FuturesUnordered content loads of JSR packages are "
                 "not modelled."),
        "design_ref": "DESIGN.md section 5 C04, section 6",
        "note": "Trusted: as C01; the loader is a function of its arguments; inline executor instead of deno_unsync spawn.",
        "technique": "Coq simulation proof (scheduled run tracks the sequential loop) + schedule exploration with gated futures on the real code",
    },
    "C19": {
        "text": ("The builder model covers Builder::build on a non-empty graph and Builder::reload; the real code and "
                 "the model execute the same histories and must agree structurally. Proved: rebuilding with known "
                 "roots/imports is the identity and issues no load; no pending entries after any further build. The "
                 "convergence claims are refuted in general (C19_root_context_refuted; known findings F-C19a/b) and "
                 "are decided per history on the real code by an extracted judge against the alternative real build. "
                 "Partial: no convergence theorem over the model yet."),
        "design_ref": "DESIGN.md section 5 C19, section 6",
        "note": "Trusted: as C01; error referrers are not compared between alternative histories.",
        "technique": "executable Coq model of build/reload histories + differential testing + relational judge on real histories",
    },
    "C13": {
        "text": ("Part (a) only. Coq theorems over an executable model of the serde codec of analysis::ModuleInfo at "
                 "serde_json::Value level (Model/Codec.v: every serde attribute of analysis.rs:18-290 and of "
                 "Position/PositionRange transcribed, decoders covering map and sequence forms, internally tagged / "
                 "untagged / flattened types and serde's buffered-content corner cases): decoding an encoding gives "
                 "back the value for ALL values (C13_roundtrip, C13_roundtrip_exact), also from any reordering of "
                 "object keys (C13_roundtrip_unordered: the decoder is insensitive to key order), the encoding is injective, "
                 "encodings have distinct object keys; and over module_graph_1_to_2: a dependency whose last leading "
                 "comment matches find_deno_types decodes with exactly that types specifier and all other fields "
                 "unchanged, leadingComments removed, entries without comments untouched, for every find_deno_types "
                 "function. Tied to the code on every run by differential execution (enumerated shapes, analysed "
                 "corpus sources, mutated JSON, generated v1 manifests) and by two proved decision procedures "
                 "evaluated on the real outputs. Part (b) (manifest shortcut equals parsing) is NOT claimed."),
        "design_ref": "DESIGN.md section 5 C13 (model a)",
        "note": ("Trusted: Coq kernel; extraction; harness abstraction of ModuleInfo/serde_json::Value to the wire "
                 "format; serde_json's text layer; the regex behind find_deno_types (data). The decoder model is "
                 "faithful on Values whose numbers are u64 < 2^62; usize arithmetic in the range computation is "
                 "unbounded in the model."),
        "technique": "Coq proof (encoder/decoder inversion, association-list reasoning) + extracted-model differential testing + proved decision procedures on real outputs",
    },
    "C20": {
        "text": ("Coq theorems over an executable byte-level model (Model/Text.v) of new_source_with_text, "
                 "resolve_media_type_and_charset_from_content_type, detect_charset, encoding_rs for_label (UTF-8/UTF-16 "
                 "labels) + decode_without_bom_handling (WHATWG UTF-8 state machine, UTF-16LE/BE with surrogate/odd-length "
                 "replacement, borrow rule), decode_arc_source_detail, try_get_original_bytes and size, for ALL headers, "
                 "byte strings and oracle answers: original bytes are None or exactly the loader's bytes; the stored text "
                 "is the UTF-8 encoding of the WHATWG decoding with one leading U+FEFF removed (although the code "
                 "borrows the input when it can); each decoded kind is characterised by an iff on the input "
                 "(Unchanged <-> decoder borrows and no BOM; OnlyUtf8Bom <-> UTF-8 label, well-formed, BOM; Changed "
                 "<-> decoder does not borrow); decode error <-> unsupported label; size = text length; the text is "
                 "well-formed UTF-8; validator = declarative well-formedness; decoders invert encoders. The JSR deferred "
                 "content fill drops the response headers: there the decoding clause is proved only for headers naming "
                 "no charset or UTF-8 and refuted otherwise (known finding F-C20a, confirmed on the real code every run). Tied to the "
                 "code by exhaustive bounded + random differential execution over ~1.1 million (bytes, header, scheme, "
                 "media, route) combinations per quick run through parse_module, real graph builds and real JSR package builds (deferred and cached)."),
        "design_ref": "DESIGN.md section 5 C20",
        "note": ("Trusted: Coq kernel; extraction; harness (generators, oracle call into encoding_rs for legacy labels, "
                 "observation of Module values through the public API). Legacy encodings are oracle data, not modelled. "
                 "DESIGN's sketch of C20_unchanged_iff was corrected to the code: legacy ASCII-compatible labels on "
                 "pure-ASCII input also yield Unchanged."),
        "technique": "Coq proof (encoder/decoder/validator algebra, BOM stripping byte-level vs scalar-level) + proved decision procedure on real observations + exhaustive bounded differential testing",
    },
    "C07": {
        "text": ("Coq theorems over executable models of recommended_registry_package_url(_to_nv) (strings as code "
                 "point lists, with Version::parse_standard modelled down to the monch combinators), "
                 "normalized_export_name, JsrPackageVersionInfo::export/exports and the PackageSpecifiers table as a "
                 "state machine. Proved for all inputs: parse(print v) = v and every accepted text yields a printable "
                 "version; to_nv(pkg_url(nv) ++ path) = nv for every plain http(s) directory registry URL, scope/name "
                 "package and version, hence a URL under one package is never attributed to another; outside four input "
                 "classes the converted URL lies under the package it is attributed to; exports() lists exactly what "
                 "export() resolves (last repeated key wins, non-strings ignored); for every operation history the table "
                 "refines a history specification (last add_nv wins up to Ord, first-insertion-ordered distinct versions "
                 "per name, export/dependency sets per ensured package) and stops exactly at the first add_dependency/"
                 "add_export on a package that was never ensured. The unrestricted no-misattribution statement is refuted "
                 "by four witnesses confirmed on the real code (known findings F-C07a-d). Partial: the builder-level part "
                 "of C07 is not in this check."),
        "design_ref": "DESIGN.md section 5 C07",
        "note": ("Trusted: Coq kernel; extraction; harness abstraction (strings to code points, interning of requirements / "
                 "name@versions by the real Eq with Ord classes from the real cmp). Url::join outside the modelled domain and "
                 "serde_json's reading of the manifest text are data from the real crates. Five of the table's mutators are "
                 "pub(crate) and are not exercised on the real code by this check."),
        "technique": "Coq proof (string-level parser inversion, refinement of a state machine to a history specification by invariant) + refutation witnesses + extracted-model differential testing incl. exhaustive short version texts",
    },
    "C05": {
        "text": ("Coq theorems over the builder model with a lockfile (stage B1.5), for every world and lockfile: every "
                 "loader call for a specifier the lockfile knows presents that checksum (invariant over the whole build), "
                 "rejected content becomes an integrity error after at most one cache-bypassing retry, a checksummed URL "
                 "that redirects is rejected, existing entries are never overwritten and new ones recorded once. The "
                 "real builder's loader calls (with presented checksums and cache settings) and locker calls must equal "
                 "the model's on thousands of worlds with matching/mismatching/partial lockfiles and tampered Reload "
                 "content; the real observation is also judged by an extracted procedure. 'Recorded faithfully' is "
                 "refuted (F-C05a: the hash of the decoded text is recorded; confirmed by building twice on the real "
                 "code). Partial: the registry half (manifest and package-file checksums) is not modelled yet."),
        "design_ref": "DESIGN.md section 5 C05, section 11",
        "note": "Trusted: as C01; SHA-256 values are interned tags (equal tag <=> equal hash string computed by the real LoaderChecksum::gen).",
        "technique": "Coq invariant proof over the builder model with a lockfile + differential testing of loader/locker call logs + real two-build self-consistency check",
    },
    "C16": {
        "text": ("(a) Export resolution: Coq theorems over an executable model of exports_and_re_exports_inner / "
                 "exports_and_re_exports / ModuleInfoRef::exports with the shared visited set (Model/Symbols.v), for ALL "
                 "module tables: the set of names resolved at a module equals its own names plus the non-default own "
                 "names of every module reachable through one or more resolved star re-exports (least fixed point, "
                 "C16_exports_set), an own name resolves to the module's own binding (C16_own_first), fuel = number of "
                 "modules suffices with cyclic re-exports (C16_terminates); which binding an ambiguous name lands on is "
                 "first-found and not part of the statement. The complete real resolved map (with re-export paths) and "
                 "unresolved list of every module of every explored program is compared with the extracted model, and "
                 "the real name set is judged by a decision procedure proved equivalent to the declarative statement. "
                 "(b) Tree shape: the 3100-line SymbolFiller is NOT modelled; wf_symtabb is proved sound "
                 "(C16_wf_checker_sound: unique ids, parentless root, every other symbol has an existing parent and - if "
                 "all its declarations are definitions - is listed there exactly once among children+members and not in "
                 "both, alias symbols are not listed, every listed id exists and has the lister as parent, parent chains "
                 "reach the root, root paths are unique and exist for definition chains, export ids exist, declarations "
                 "carry the symbol's name and a range inside the text) and run on the real table of every module of the "
                 "symbol/graph spec corpus and of generated programs. (c) go-to-definition: find_definition_paths_internal / "
                 "go_to_file_export are modelled for the fragment without qualified names; for ALL tables the model "
                 "terminates with fuel = number of symbols + 1 and yields only existing Definition declarations or "
                 "explicit markers (C16_goto_terminates_partial, C16_goto_sound_partial); the real ordered results of "
                 "every symbol are compared with the model on every program without an `import X = A.B` declaration. "
                 "Qualified names are not modelled - with them termination is false (F-C16c); there the real queries "
                 "run under a watchdog and their results are judged by a proved-sound checker. Three genuine defects are recorded as known findings: "
                 "F-C16a (valid TypeScript: a dotted namespace segment re-declared in its body becomes its own child), "
                 "F-C16b (TypeScript-invalid conflicting declarations yield mixed alias/definition symbols; includes one "
                 "of the repository's own specs), F-C16c (a circular import alias makes go-to-definition overflow the "
                 "stack)."),
        "design_ref": "DESIGN.md section 5 C16",
        "note": ("Trusted: Coq kernel; extraction; the harness's dump of the symbol tables through the public API "
                 "(ids from SymbolId's Debug form, names interned, ranges relative to the text start), its TS program "
                 "generator, the spec-file parser, and - for known-finding classification only - its computation of the "
                 "three input classes from the swc AST of the sources. (b) and (c) are translation validation of explored "
                 "outputs, not proofs about the builder; termination of go-to-definition through qualified names is "
                 "observed (5 s watchdog, child process for the known crashing class), not proved; the harness also "
                 "supplies, per declaration, the symbol an swc id maps to and resolve_dependency's answer (data)."),
        "technique": "Coq proof (DFS with shared visited set: invariant + closure argument giving the least fixed point; fuel bound) + differential testing of the extracted model against ModuleInfoRef::exports + proved-sound checkers (translation validation) on real symbol tables and go-to-definition results + watchdog",
    },
    "C08": {
        "text": ("Layers (a) and (c') of DESIGN.md C08. (a) Coq theorems, for ALL texts (lists of Unicode scalar values: "
                 "non-ASCII, astral, CR, CRLF, BOM), over executable models of Position::from_source_pos as computed by "
                 "text_lines (Model/TextPos.v: LF is the only line break, columns count scalar values, an offset inside a "
                 "character has that character's position, a leading U+FEFF occupies no column), of the nine pragma "
                 "regexes + is_comment_triple_slash_reference with Rust-regex semantics (Model/Pragma.v: leftmost-first, "
                 "(?i) with the U+017F fold, Unicode White_Space, negated classes matching LF) and of "
                 "comment_source_to_position_range: offset<->position round trip on every character boundary "
                 "(C08_pos_roundtrip; the two exceptions - offset 0 of a BOM-led text, offsets inside a character - are "
                 "refuted by witnesses that agree with text_lines), monotonicity, every recogniser captures a contiguous "
                 "piece of the comment text lying directly between two quote characters unless quote-less "
                 "(C08_recognise_capture), and the headline C08_range_exact: for any prefix, comment kind, comment text "
                 "with a match, and suffix, the computed range mapped back onto the whole source is exactly the matched "
                 "specifier with its quotes; PositionRange/Dependency::includes and the first-match lookup return exactly "
                 "the dependency whose range contains the position when ranges of different dependencies share no "
                 "position (C08_lookup; touching ranges refuted because both ends are inclusive). (c') The REAL analyser "
                 "and the REAL graph module are run on every module source embedded in tests/specs/**/*.txt and on "
                 "thousands of generated programs; each reported range is mapped back with the extracted offset_of_pos "
                 "and judged by proved decision procedures (literal/quoted/quote-less slice equality with the cooked "
                 "value taken from the real parser, pairwise separation, planted = reported as multisets, lookups through "
                 "the real includes); pragma items are re-derived by the model from the real comment and must equal what "
                 "was reported; the recognisers are compared with the real regex functions on 500 000 comment texts and "
                 "pos_of_offset with text_lines on every byte offset of 20 000 texts. Two genuine defects are recorded "
                 "(F-C08a HTML-like comments: ranges off by one/two characters and a panic; F-C08b a quote-less pragma "
                 "capture that swallows a JSDoc import). Partial: the collector over real syntax is not modelled "
                 "(layer (b)); 'exactly once' is decided per generated program, not proved."),
        "design_ref": "DESIGN.md section 5 C08",
        "note": ("Trusted: Coq kernel; extraction; the harness's flattening of ModuleInfo into (category, kind, text, range) "
                 "items, its choice of the comment a pragma item sits in (nearest real comment), the cooking of a literal "
                 "by the real swc parser, the generator's bookkeeping of what it planted. The SWC parser, its comment "
                 "attachment rules and the monch JSDoc mini-parsers are not modelled: their output is judged. The "
                 "inverse map used for slicing is the model's own offset_of_pos (proved inverse of the modelled "
                 "text_lines map); the real PositionRange::as_source_range is additionally compared with it on every "
                 "reported range. tests/testdata holds only .wasm files (no module text to analyse)."),
        "technique": "Coq proof (structural induction on the text; parser-combinator style recognisers with a capture invariant) + extracted-model differential testing against regex/text_lines + proved decision procedures run on real analyser output (corpus and generated)",
    },
    "C09": {
        "text": ("Three layers. (L) Coq theorems, for all inputs, over a line-by-line model of the export-subset lattice "
                 "of the public-range tracer (NamedSubset / Exports / ImportedExports, range_finder.rs:41-278): with den(x) the "
                 "set of qualified export paths x covers, extend/add lose nothing (sound), report every requested and "
                 "not-yet-traced path in the returned difference (covers - an under-approximation would be an untraced "
                 "export), report nothing that was not requested (no_more), and a difference that denotes anything "
                 "strictly grows a bounded measure (worklist termination); add/add_qualified/from_parts/add_named are "
                 "characterised denotationally; the IndexMap invariant is preserved. DESIGN's exactness laws are refuted "
                 "in one class (a qualified `default` meets Star: the code over-approximates to StarWithDefault) and "
                 "proved outside it. The model is tied to the private Rust types through the cfg-guarded hooks: random "
                 "operation sequences and ALL pairs of small lattice elements, compared structurally. (P) A decision "
                 "procedure closedb, proved equivalent to the declarative statement Closed (parses; no module-level "
                 "identifier of the original left unresolved; every imported/re-exported name exported by the target's "
                 "emitted text through export-star chains; relative specifiers resolve; source map well formed, in "
                 "range and identifier-preserving), judges the facts of EVERY real emitted module of the 143 corpus "
                 "specs and of hundreds/thousands of generated multi-package worlds. (T) The tracer and the SWC "
                 "transform themselves are not modelled: that all outputs are closed is checked per output, not proved. "
                 "One genuine closure defect is recorded (F-C09a: ambient classes keep private members whose types "
                 "reference declarations that were never traced; present in the repository's own spec corpus)."),
        "design_ref": "DESIGN.md section 5 'C09 - C11 shared machinery' (L) and 'C09' (per-output decision)",
        "note": ("Trusted: Coq kernel; extraction; the harness's fact extraction (deno_ast re-parse with SWC scope "
                 "analysis, export-table reading, own base64-VLQ decoder, identifier tokenisation by columns in UTF-16 "
                 "units) and its JSON<->s-expression conversion of lattice values; the hooks in /repo are thin wrappers. "
                 "Source maps: checked, not proved. Partial: no theorem about analyze_module_info / "
                 "resolve_deps_with_namespace / transform."),
        "technique": "Coq proof (mutual induction over the lattice, denotational laws, measure) + exhaustive/random differential testing through hooks + proved decision procedure run on real fast-check outputs",
    },
    "C12": {
        "text": ("Coq theorems over an executable model of the fast-check package driver (find's package worklist with "
                 "cache lookup and hash validation, transform_package, cache fill, build_fast_check_type_graph, slot "
                 "assignment) over abstract per-module outcomes: a package transformed in the run is all-or-nothing "
                 "(no errors: every ESM module of the traced set gets output and no entrypoint a diagnostic; errors: "
                 "no module gets output and every entrypoint carries them); written cache entries are homogeneous; a "
                 "replayed successful entry gives every listed module its output, a replayed failed entry gives no "
                 "output and `cached` diagnostics to the listed modules; the slots do not depend on the order in which "
                 "the package HashMap is iterated; the packages handled are the dependency closure of the top-level "
                 "ones; and cache transparency of emitted modules under an explicit, decidable read-set hypothesis "
                 "(theorem named _partial). Two statements are refuted in the model and on the real code (known "
                 "findings): after a cache hit on a FAILED package an entrypoint that lies behind the first error has "
                 "neither output nor diagnostics (F-C12a), and a failed entry keeps validating after the module that "
                 "caused the failure changed, because only the modules up to the first error are hashed (F-C12b: the "
                 "package passes without cache and fails with it). A third divergence of real outputs with/without "
                 "cache (F-C12c: cross-package `export *` + default export) lies in the tracer, outside the model, and "
                 "is judged relationally. The model is tied to the code on every run: hundreds/thousands of 8-step "
                 "histories (cold/warm/stale cache, edits of every kind) where slots, cache content and cache traffic "
                 "predicted by the extracted model are compared with the real ones and the real slots are judged."),
        "design_ref": "DESIGN.md section 5 C12",
        "note": ("Trusted: Coq kernel; extraction; the harness's abstraction (interning of specifiers, package "
                 "name@versions, emitted text+source map, source texts as hashes, diagnostic codes), the tracer hook "
                 "in /repo (read-only dump), the in-memory FastCheckCache. Partial: tracer and transform are data; "
                 "transparency has the read-set property as hypothesis; dependency-key equality is checked, not proved."),
        "technique": "Coq proof (driver model, worklist reachability instance, order independence) + refutation witnesses + model-predicted histories compared with the real code + proved decision procedures on real slots",
    },
}
NOT_YET = {}

TEXTS["C10"] = {
    "text": ("Coq: (1) the property's statement as a predicate Erased on a mini-TS SUMMARY of one emitted module (bodies "
             "empty / single placeholder return / placeholder super calls in constructors / placeholder arrow body; only "
             "declarations; initialisers absent, placeholder or in the leavable grammar with erased function forms; every "
             "parameter typed or with a retained leavable default; return type except constructors and setters; TS-private "
             "members `any`-typed property declarations; no #private member but one marker; no decorators; ambient items "
             "bodyless) with a decision procedure erasedb PROVED equivalent by induction over the nested mutual summary "
             "family (C10_erasedb_correct and the per-layer iffs); (2) an executable Gallina MODEL of the transform on the "
             "function-like fragment with, for ALL source function-likes, 'diagnostic or erased up to the known classes' "
             "(C10_model_erased_or_diagnostic), strict erasure when the source has none of the three offending constructs "
             "(C10_model_strict_outside_known_classes, C10_model_ctor), first-error = head of the collected diagnostics. "
             "The full statement is refuted for the model by three witnesses, each confirmed on the real code in every run "
             "(known findings F-C10a-c). Every module the real fast check emits for 143 spec-corpus worlds and thousands of "
             "generated packages is judged by the extracted erasedb; the model's output (diagnostics or emitted shape) is "
             "compared with the real transform on every public function-like of the model stream."),
    "design_ref": "DESIGN.md section 5 C09-C11 shared machinery, C10",
    "note": ("Trusted: Coq kernel; extraction; the SWC parser on emitter output; the Rust summarisers (emitted side "
             "fcheck/sum.rs, source side fcheck/srcsum.rs) and the normalisation of emitted shapes (ids forgotten). Partial: "
             "the transform model is of the function-like fragment; classes, properties, variable declarators, namespaces, "
             "imports/exports are covered by the per-output judgement only; the tracer's choice of public ranges and "
             "overload flags are inputs. Reading choices (leavable grammar, ambient pass-through, opaque enums, private "
             "constructors) are stated at the top of coq/Model/RunC10.v."),
    "technique": "Coq proof (decision procedure = declarative predicate by nested mutual induction; model theorems by the same induction over the source family) + refutation witnesses + per-output proved check on every real output + extracted-model differential testing of the transform on generated function-likes",
}

TEXTS["C11"] = {
    "text": ("Coq: the property's statement as a relation ApiPreserved on (summary of the original module, summary of the "
             "emitted module, entrypoint flag, resolved export name sets, intent-dropped names): emitted exports subset of the "
             "original's and equal at entrypoints; emitted items = an ordered sub-list of the original items (plus synthesised "
             "expando namespaces) each matching its original in kind, name, export form, type parameters, heritage clauses, "
             "written annotation texts and member signatures modulo the documented optional/default-parameter normalisation "
             "and the documented erasures; intent-dropped names absent. Decision procedure api_preservedb (greedy sub-list "
             "matching, split search for synthesised members/namespaces) PROVED equivalent (C11_api_preservedb_correct and "
             "per-layer iffs). Judged on every (original, emitted) pair of 143 spec-corpus worlds and thousands of generated "
             "packages with recorded intent; one defect found and recorded (F-C11a), with a Coq witness on the summaries of "
             "the real pair."),
    "design_ref": "DESIGN.md section 5 C09-C11 shared machinery, C11",
    "note": ("Trusted: Coq kernel; extraction; the Rust summariser and string interner; SWC's printer for canonical annotation "
             "texts; the real symbol API for both export name sets (second graph built from emitted texts); the generator's "
             "intent bookkeeping. Not a proof about the tracer or the transform: a proved-correct checker evaluated on real "
             "pairs (the tracer model of C09 is not built in this check)."),
    "technique": "Coq proof (decision procedure = declarative relation, incl. correctness of greedy ordered sub-list matching) + per-pair proved check on every real (original, emitted) pair with generator-recorded intent as oracle",
}
