"""Per-property configuration of tools/check."""

PROPS = {
    "C15": {
        "harness": "c15",
        "props_file": "Props/C15.v",
        "run_module": "Model.Graph Model.Walk Model.RunC15",
        "run_fn": "run_c15",
        "pinned_theorems": ["C15_terminates", "C15_once", "C15_exact", "C15_entries", "C15_errors"],
        "rule": ("worlds of 2-10 modules generated from one SplitMix64 state (JS/TS/JSX/TSX/d.ts/JSON, "
                 "static/dynamic/type-only/@deno-types/reference/self-types/x-typescript-types imports, "
                 "file/http/https, redirects, missing, erroring, external, lockfile-seeded and "
                 "caller-inserted redirects incl. cycles) are built with the real builder; each graph "
                 "is walked with 6 random (kind, follow_dynamic, check_js incl. custom, "
                 "prefer_fast_check, roots, skip policy) queries by the real iterator and by the "
                 "extracted model; yielded (specifier, entry kind) multisets and error multisets must "
                 "be equal. non-trivial = graph with >= 2 modules and >= 6 yields over its queries; "
                 "distinct = distinct abstract (graph, queries) input"),
        "assumptions": [
            "roots are given as a set (the property quantifies over root subsets)",
            "URL/scheme/media-type facts enter the model as data computed by the real crates",
        ],
    },
}
