"""Per-property configuration of tools/check."""

REG_TEXT = (" REGISTRY STREAM (stage B2, Model/Jsr.v): generated JSR registries of 1-3 packages x 1-3 versions (yanked or not) x 1-3 files, exports as string/object/odd values (missing target, non-string, array, absolute URL outside the package, unjoinable value), manifests with honest / tampered / unsupported / missing checksums, embedded module info present / absent / stale, a file cache (CacheSetting::Only) holding the same bytes / other bytes / a fault, cached version manifests, stale cached package documents (restart), faults (missing, error, redirect, self-redirect, external, undecodable JSON, module under another final specifier) on package documents, version manifests and files, lockers with matching / mismatching package-manifest and remote entries, prefer_cached_jsr_versions; importing programs use jsr: requirements (mostly satisfiable), sub-path exports, https URLs into the registry, static and dynamic imports, jsr: and registry-URL roots. Every fact about served bytes is computed by the real crates (deserialisers, export(), module_info(), parse_module, VersionReq::matches, Version order, package_url_to_nv). The real graph (entries with error kind / specifier / referrer, source hash, dependencies), redirects, package table (mappings, packages, exports used, jsr dependencies, used yanked), the multiset of loader calls (URL, cache setting, presented checksum) and the locker calls must equal the model's; the model also checks the world hypothesis of the theorems (wf_jworld).")

PROPS = {
    "C15": {
        "harness": "c15",
        "props_file": "Props/C15.v",
        "run_module": "Model.Graph Model.Walk Model.RunC15",
        "run_fn": "run_c15",
        "pinned_theorems": ["C15_terminates", "C15_once", "C15_exact", "C15_entries", "C15_errors"],
        "rule": ("worlds of 2-10 modules generated from one SplitMix64 state (JS/TS/JSX/TSX/d.ts/JSON, "
                 "static/dynamic/type-only/@deno-types/reference/self-types/x-typescript-types imports, "
                 "file/http/https, redirects, missing, erroring, external, lockfile-seeded and "
                 "caller-inserted redirects incl. cycles) are built with the real builder; each graph "
                 "is walked with 6 random (kind, follow_dynamic, check_js incl. custom, "
                 "prefer_fast_check, roots, skip policy) queries by the real iterator and by the "
                 "extracted model; yielded (specifier, entry kind) multisets and error multisets must "
                 "be equal. non-trivial = graph with >= 2 modules and >= 6 yields over its queries; "
                 "distinct = distinct abstract (graph, queries) input"),
        "assumptions": [
            "roots are given as a set (the property quantifies over root subsets)",
            "URL/scheme/media-type facts enter the model as data computed by the real crates",
        ],
    },
    "C02": {
        "harness": "c02",
        "props_file": "Props/C02.v",
        "run_module": "Model.Graph Model.Walk Model.RunC15 Model.RunC02",
        "run_fn": "run_c02",
        "pinned_theorems": ["C02_validate_iff", "C02_valid_iff", "C02_valid_edges",
                            "C02_reachable_failure_not_skipped_outside_known_class", "C02_error_names",
                            "C02_failsb_correct", "C02_follow_dynamic_missing_root_refuted"],
        "rule": ("same real graphs as C15 (faults: missing, load error, parse error, unsupported media, bad "
                 "resolution, https->http, literal file:// from remote, behind static/dynamic/code/type edges "
                 "and redirect chains); 8 validations per graph (the first is ModuleGraph::valid() itself, the "
                 "others random kind x follow_dynamic x check_js x prefer_fast_check x root subsets). The real "
                 "verdict is judged by the extracted, proved-correct decision procedure (failsb) and compared "
                 "with the model's verdict. non-trivial = graph with >= 2 modules where some but not all "
                 "validations fail"),
        "assumptions": [
            "roots are given as a set",
            "known finding F-C02a (follow_dynamic drops Missing slot errors that no dependency reports) is reported as KNOWN-FINDING",
        ],
        "partial": ["for follow_dynamic = true only C02_reachable_failure_not_skipped_outside_known_class is proved; the iff is refuted (F-C02a)"],
    },
    "C14": {
        "harness": "c14",
        "props_file": "Props/C14.v",
        "run_module": "Model.Graph Model.Walk Model.RunC15 Model.RunC02 Model.RunC14",
        "run_fn": "run_c14",
        "pinned_theorems": ["C14_resolve_terminates", "C14_resolve_reaches_end", "C14_idempotent", "C14_walk_end",
                            "C14_agree", "C14_specifiers_one_hop", "C14_prefer_types", "C14_prefer_code",
                            "C14_cycle_refuted", "C14_ten_hops_refuted", "C14_specifiers_two_hops_refuted",
                            "C14_shadow_refuted"],
        "rule": ("worlds built around 1-3 redirect chains of length 1..13 (quick) / 1..26 (thorough), made of loader "
                 "redirects and/or lockfile-seeded redirects, ending at a module, a missing module, a load error, or "
                 "cycling back into the chain; loader max_redirects in {3,10,25}; modules import chain heads "
                 "statically/dynamically/type-only and via @deno-types/@ts-self-types. For EVERY specifier known "
                 "to the graph the real resolve/get/contains/try_get/try_get_prefer_types and the end of the REAL "
                 "walk from it are compared with the model's; specifiers() and resolve_dependency(+-types) of every "
                 "dependency likewise; the extracted decision procedure judges the real lookups against the real "
                 "walk end. non-trivial = graph with >= 2 redirects"),
        "assumptions": [
            "known findings F-C14a (cycle), F-C14b (>9 hops), F-C14c (specifiers() one hop only), F-C14d (entry at a redirect source) are reported as KNOWN-FINDING; the model/implementation comparison of all lookup values is NOT suspended for them",
        ],
        "partial": ["agreement with the walk is proved for chains of <= 9 hops without shadowing; the unrestricted statement is refuted (4 witnesses)"],
    },
    "C17": {
        "harness": "c17",
        "props_file": "Props/C17.v",
        "run_module": "Model.Graph Model.Walk Model.RunC15 Model.RunC02 Model.RunC14 Model.Prune Model.RunC17",
        "run_fn": "run_c17",
        "pinned_theorems": ["C17_terminates", "C17_entries", "C17_code_view_unchanged", "C17_no_types_left",
                            "C17_code_only_noop"],
        "rule": ("worlds of 2-10 modules satisfying the same-attribute proviso (the `type` attribute used for a "
                 "target is a function of the target; roots/configured imports/redirect sources are requested "
                 "without attribute), default build options; each world is built three ways on the REAL code: "
                 "all kinds, all kinds + prune_types, code only (without configured type imports). Checked: real "
                 "prune result == model prune of the abstracted all-kinds graph (full structural equality), "
                 "nothing type-related left in the real pruned graph, and observational code-equality of the "
                 "real pruned graph with the real code-only build (extracted obs_code_eqb: entries with module "
                 "kind/media/error kind, redirects, code edges as sets with targets and dynamic flags, valid() "
                 "verdict). non-trivial = all-kinds graph with >= 3 entries of which pruning removes at least one"),
        "assumptions": [
            "default build options (with skip_dynamic_deps a dynamically imported module loaded through a type edge survives pruning but is absent from the code-only build: recorded as an observation in DESIGN.md)",
            "known findings F-C17a (context-dependent acceptance of attribute-less JSON) and F-C17b (position of the TooManyRedirects error on a redirect cycle) are reported as KNOWN-FINDING",
        ],
        "partial": ["the build-level equality prune(build All) = build CodeOnly is decided on the real code per case; its theorem over a builder model is not yet proved"],
    },
    "C18": {
        "harness": "c18",
        "props_file": "Props/C18.v",
        "run_module": "Model.Graph Model.Walk Model.RunC15 Model.RunC02 Model.RunC14 Model.Prune Model.RunC17 Model.RunC18",
        "run_fn": "run_c18",
        "pinned_theorems": ["C18_terminates", "C18_clone", "C18_entries", "C18_self_contained_correct",
                            "C18_typesonly_refuted"],
        "rule": ("same proviso worlds as C17, graph kind in {All, CodeOnly, TypesOnly} (configured type imports only "
                 "for kinds that include types), 1-2 segment roots among the graph's modules (12%: the original "
                 "roots, exercising the clone shortcut). Checked on the REAL code: real segment == model segment "
                 "of the abstracted graph (full structural equality); every dependency of every module of the real "
                 "segment resolves (with and without type preference) and try_gets as in the real original, and "
                 "three validations agree (extracted self_contained, proved equivalent to the declarative "
                 "statement); entries+redirects of the real segment == those of a real direct build of the segment "
                 "roots. non-trivial = segment roots not all original roots, segment has >= 2 entries and fewer "
                 "than the original"),
        "assumptions": [
            "known findings F-C18a (types-only segment drops a JS module that has a types dependency), F-C18b (context-dependent acceptance of attribute-less JSON, same cause as F-C17a) and the C14 entry-at-redirect/cycle family are reported as KNOWN-FINDING",
        ],
        "partial": ["self-containedness and equality with a direct build are decided per case on the real code; graph-level theorems characterise the segment's contents"],
    },
    "C06": {
        "harness": "c06",
        "props_file": "Props/C06.v",
        "run_module": "Model.Version Model.RunC06 Model.Jsr Model.RunJsr Model.RunJsrAll",
        "run_fn": "run_c06j",
        "pinned_theorems": ["C06_resolve_version", "C06_select", "C06_select_unique", "C06_select_unique_up_to_rank", "C06_order_free",
                            "C06_order_free_perm", "C06_wf_ranks_decided", "C06_wf_nodup_decided",
                            "C06_get_for_package", "C06_excluded", "C06_not_excluded",
                            "C06_no_cutoff_no_date_filter", "C06_error_flag", "C06_cutoff_strict",
                            "C06_no_creation_date_is_old", "C06_spec_okb_correct",
                            "C06_order_free_equal_rank_refuted", "C06_registry_lockfile_respected",
                            "C06_registry_resolved_not_below_lockfile", "C06_registry_judgement_holds", "C06_registry_selection_in_date"],
        "rule": ("selection-function level, direct calls to the public deno_graph::packages API. (a) EVERY registry "
                 "info made of <= 3 of the versions {0.9.0, 1.0.0, 1.1.0, 2.0.0-beta.1, 2.0.0}, each yanked or not and "
                 "created never/before/at/after the cutoff (5801 infos), x 3 option sets (no date / date / date with "
                 "the package excluded by exact name or prefix) x 6 requirements (*, ^1, ~1.0, 1.1.0, >=2.0.0-0, ^3) x "
                 "existing sets x cached sets: quick = the empty set plus seeded selections (existing drawn from all "
                 "of the 5 versions, so lockfile seeds absent from the registry occur; repeated elements occur), "
                 "thorough = all 32 existing subsets x all cached subsets (+ one cached version absent from the "
                 "registry); (b) sampled infos of 4-5 of the 5 and 3-6 of a wider 9-version universe; (c) explicit "
                 "queries on a 12-version universe that contains versions differing in build metadata only: each is "
                 "answered by the real code under two different iteration orders of the same registry HashMap "
                 "(fresh RandomStates until the wanted order appears), both answers are judged by the extracted, "
                 "proved decision procedure spec_okb and for equality; (d) NewestDependencyDateOptions::"
                 "get_for_package exhaustively over 11 names x all option sets with <= 2 exclusions, <= 2 prefixes, "
                 "date on/off; (e) the free function resolve_version on explicit sequences with repeats. "
                 "Version::cmp enters as a dense rank (checked to be a total preorder), VersionReq::matches as a "
                 "matrix. non-trivial = case with at least two different outcome classes (unyanked / yanked / dated "
                 "error / plain error; cutoff in force / not; some / none)." + REG_TEXT + " Version flavour: prefer_cached in 50%, stale package documents in 30%, a graph filled from a lockfile (fill_from_lockfile package specifiers: listed, unlisted and never-published versions, requirements they do or do not satisfy) in 45% (12% in the other registry streams); on these the extracted model also judges that every resolved requirement is mapped to a version not below the highest lockfile-selected version of its package that satisfies it"),
        "assumptions": [
            "Version::cmp and VersionReq::matches enter the model as data computed by deno_semver on the case's versions",
            "graph-level resolution (resolve_jsr_nv with versions already in the graph, cached-manifest probe incl. memoisation, tag rejection, used-yanked bookkeeping, restart on a stale package document) is decided per case by the registry stream against Model/Jsr.v, lockfile-seeded selections included (they are honoured by every build, restarts included: C06_registry_lockfile_respected; F-C06b, repaired); date cut-offs are not in that stream",
            "the cutoff comparison follows the code (created < cutoff); the boundary is not reported as a violation (DESIGN.md C06)",
            "known finding F-C06a (registry versions that differ in build metadata only: the pick depends on HashMap iteration order) is reported as KNOWN-FINDING",
        ],
        "partial": ["selection function, plus at graph level the lockfile theorem and the table theorem (mapped versions satisfy their requirements, C07_registry_table); order independence is proved for version sets that Version::cmp separates, "
                    "the unrestricted statement is refuted (F-C06a); the remaining graph-level behaviour (probes, yanked bookkeeping, restart) per case"],
    },
    "C01": {
        "harness": "c01",
        "props_file": "Props/C01.v",
        "run_module": "Model.Graph Model.Walk Model.RunC15 Model.RunC02 Model.RunC14 Model.Prune Model.RunC17 Model.Builder Model.RunC01 Model.Jsr Model.RunJsr Model.Decl Model.RunDecl Model.RunJsrAll",
        "run_fn": "run_c01j",
        "pinned_theorems": ["C01_complete", "C01_settled_unfold", "C01_single_entry_step", "C01_recorded_dep", "C01_nothing_pending",
                            "C01_registry_complete", "C01_registry_settled_unfold", "C01_one_entry_per_text", "C01_static_wins", "C01_declaration_without_extras", "C01_registry_sound_refuted", "C01_b1_sound_refuted", "C01_b1_judge_sound", "C01_registry_judge_sound", "C01_b1_sound"],
        "rule": ("proviso worlds of 2-11 modules (JS/TS/JSX/TSX/d.ts/mjs/mts/JSON by extension or content-type header; "
                 "static/named/type-only/dynamic/export-star/export-type/@deno-types/reference types+path/self-types/"
                 "x-typescript-types/JSDoc/import-type imports; json/text/bytes/bogus attributes as a function of the "
                 "target; file/http/https/node:/malformed jsr:/npm:; redirects incl. chains and loops, missing, erroring, "
                 "external, unparsable entries), graph kind x is_dynamic x skip_dynamic_deps x unstable bytes/text x "
                 "max_redirects in {0,2,10} x configured imports. Each module's declaration is obtained from the REAL "
                 "parse_module for the graph kind; the real builder's graph (entries with structured errors and "
                 "referrers, redirects, per-module dependencies with code/type targets, attributes, dynamic flags, "
                 "external/asset flags, configured imports, has_node, multiset of loader calls) must equal the "
                 "extracted model's. 20% of the worlds answer 1-2 modules under another final specifier (an existing "
                 "one or a fresh one that serves the same module). Extras drawn after the base world: 14% have valid npm: / passed-through jsr: specifiers (half of them built with an npm resolver that rejects some requirements and fails some dependency graphs), 10% a WebAssembly module (valid binary whose imports name modules of the world, or rejected bytes), 12% a Resolver used in parse and build (import-map style mapping of bare specifiers to modules, to unserved URLs, refusals; resolve_types for untyped modules; a default JSX import source). non-trivial = >= 3 entries and (an error, a redirect or a dynamic dependency)." + REG_TEXT +
                 " DECLARATION LAYER (Model/Decl.v): the last 4000 (quick) / 80000 (thorough) cases hand random lists of 1-7 dependency "
                 "descriptors (static import/export/import-type/export-type/import-equals/export-equals/defer/source/module-augmentation and "
                 "dynamic import/defer/source/require with string arguments; 1-3 specifier texts so that repeats in every order are frequent; "
                 "type attributes, @deno-types specifiers, side-effect flags) for 7 referrers (ts/js/tsx/mjs/d.ts/d.mts, file/http/https) and "
                 "all graph kinds to the REAL parse_module through a provided analyzer; the recorded dependency map (order, code and type "
                 "targets with the range of the import they were resolved from, is_dynamic, first type attribute, @deno-types text, number of "
                 "imports) must equal the model's; what a text resolves to comes from separate real runs on a module importing it alone; every other such case is a WHOLE declaration: random @ts-self-types, triple-slash path/types references, JSX import source (+ types), JSDoc imports and an x-typescript-types header are added to the analysis, and the types dependency plus the dependency map must equal the model's (Decl.declared_full); 35% of the whole declarations are parsed with a Resolver (refused / re-mapped specifier texts, default JSX import source and types source with a jsx module name of its own, resolve_types answering nothing / a types module / an error), whose contributions are part of the model"),
        "assumptions": [
            "stage B1 + registry stage B2: npm: specifiers without an npm resolver (valid ones are answered by the loader, malformed ones are error entries) and with one (the resolver stage at the end of a build is in the model, Builder.npm_resolve / npm_fill: one batch for the static requests in first-appearance order, one call per dynamic request, rejected requirements and failed dependency-graph resolutions as error entries, existing entries kept; the harness resolver's batches and the graph's npm_dep_graph_result are compared too; C01_complete is stated for builds without a resolver), jsr: specifiers either through the registry stage or passed through (BuildOptions::passthrough_jsr_specifiers: marked external at once, tags and malformed ones rejected), no source-phase imports, no source maps, utf-8 sources",
            "registry stream: the extracted model also judges 'nothing unreachable is present' on the graph of every alias-free world (reachability from the roots over redirects and recorded dependencies); known finding F-C01a (entries orphaned by a content load that fails after the embedded module info was followed) is reported as KNOWN-FINDING",
            "the loader is a function of its arguments",
        ],
        "partial": ["second layer: template arguments of dynamic imports, the source-map dependency and resolver-supplied types (resolve_types, default JSX import source) are not in the declaration model; theorems cover the descriptor fold, the whole declaration is tied by correspondence", "completeness (nothing reachable is absent) is proved for every world, for stage B1 (C01_complete) and for the registry stage (C01_registry_complete, no hypothesis on the world); the converse (nothing unreachable is present) is PROVED for stage B1 under the hypotheses it needs (C01_b1_sound: alias-free worlds without asset imports (with or without an npm resolver); invariant over every loop step, Proofs/SoundProofs.v); it is false without alias-freeness and, as F-C01c shows, false when an asset request is rejected at a target that was loaded as a module; for the registry stage it is not proved (C01_registry_sound_refuted); it is judged per case on every alias-free world (B1: RunJsrAll.c01_b1_judgement over the model graph, which equals the real one; registry: RunJsr.c01_judgement)"],
    },
    "C03": {
        "harness": "c03",
        "props_file": "Props/C03.v",
        "run_module": "Model.Graph Model.Walk Model.RunC15 Model.RunC02 Model.RunC14 Model.Prune Model.RunC17 Model.Builder Model.RunC01 Model.Jsr Model.RunJsr Model.RunJsrAll",
        "run_fn": "run_c03",
        "level": "proof",
        "pinned_theorems": ["C03_no_pending", "C03_terminates", "C03_reload_terminates", "C03_loop_step_decreases",
                            "C03_build_total", "C03_step_invariant", "C03_error_entry",
                            "C03_registry_no_pending", "C03_registry_errors_under_own_specifier"],
        "rule": ("fault enumeration: EVERY assignment of a response kind {module, missing, load error, external, "
                 "unparsable, self-redirect, redirect to each other specifier} to each of the 4 specifiers of a base "
                 "world (9^4 = 6561 assignments; quick: 1 base world, thorough: 3) x graph kind, plus 2000 (quick) "
                 "sampled C01 worlds. Per case on the REAL code: build under catch_unwind, serialised graph free of "
                 "INTERNAL ERROR, no pending entry, error entries stored under their own specifier with a referrer "
                 "unless reached from a root, fault locality (every module that does not transitively depend on a "
                 "faulted specifier equals its entry in the fault-free build), and equality with the builder model's "
                 "graph. non-trivial = at least one error entry and one module." + REG_TEXT + " Fault-heavy flavour (28% per document/file). A case "
                 "whose real build does not return within the watchdog limit is reported as a violation (non-termination)"),
        "assumptions": [
            "stage B1 (see C01) and stage B2 (registry); npm resolver faults (rejected requirements, failing dependency-graph resolution) are sampled in the B1 stream, not enumerated; undecodable module bytes are not enumerated",
            "worlds where a module is answered under another final specifier are compared with the model but left out of the fault-locality oracle",
            "fixed: F-C03b (self-redirect left a pending entry) 76358fe; F-C03c (unjoinable export value panicked) a6fa026; F-C03d (add_dependency panicked on a package never ensured) ccf7036; F-C03e (a build that never returned: two-hop redirect whose end imports the first hop) 50c93c4 - all found by this machinery and repaired in /repo",
        ],
        "partial": ["termination is proved for stage B1 (C03_terminates: a strictly decreasing measure over every loop iteration, any world, any starting graph); for the registry stage it is checked per case (the model never running out of fuel, the real build returning under a watchdog)", "npm resolver faults sampled only (the no-pending theorems cover the resolver stage: npm_fill adds finished entries only)"],
    },
    "C04": {
        "harness": "c04",
        "props_file": "Props/C04.v",
        "run_module": "Model.Graph Model.Walk Model.RunC15 Model.RunC02 Model.RunC14 Model.Prune Model.RunC17 Model.Builder Model.RunC01 Model.Jsr Model.RunJsr Model.RunJsrAll",
        "run_fn": "run_c04",
        "pinned_theorems": ["C04_schedule_independent", "C04_scheduled_equals_sequential", "C04_poll_delivers"],
        "rule": ("C01 worlds biased towards several dynamic branches sharing a failing descendant; each world is built "
                 "on the REAL code once with an immediately-ready loader, 6 (quick) / 25 (thorough) more times in the "
                 "same process (fresh hasher state), and under 8 / 40 random completion schedules: the loader returns "
                 "gated futures, the build future is polled by hand and at each suspension one outstanding load chosen "
                 "by the schedule completes. Serialised graph + every error with its referrer range must be identical "
                 "across all builds, and the reference build must equal the (schedule-free) model's graph. "
                 "non-trivial = at least 3 loads simultaneously outstanding." + REG_TEXT + " Here each registry world (prefer_cached_jsr_versions on in 70%) is "
                 "additionally built under 8 / 40 completion schedules of ALL its loads (metadata, cache-only probes, content loads): graph, "
                 "loader-call multiset and locker calls must equal those of the immediately-ready build, which must equal the model's"),
        "assumptions": [
            "the loader is a function of its arguments (a loader whose answers drift between calls makes 'the same sources' meaningless)",
            "single-threaded futures: deno_unsync's spawn is replaced by an inline executor",
            "fixed: F-C04a (HashMap iteration order of dynamic branches/deferred loads decided error referrers) repaired in /repo commit 7535c3a",
        ],
        "partial": ["the scheduler model (Sched.v) covers stage B1; for the registry stage schedule independence is decided per case on the real code against the schedule-free model"],
    },
    "C19": {
        "harness": "c19",
        "props_file": "Props/C19.v",
        "run_module": "Model.Graph Model.Walk Model.RunC15 Model.RunC02 Model.RunC14 Model.Prune Model.RunC17 Model.Builder Model.RunC01 Model.RunC19",
        "run_fn": "run_c19",
        "pinned_theorems": ["C19_known_roots_identity", "C19_incremental_no_pending", "C19_root_context_refuted", "C19_stale_upgrade_refuted"],
        "rule": ("histories on C01 worlds (default dynamic options, 2-4 plain roots): 50% an ordered partition of the "
                 "roots into 2-3 successive builds vs. all roots at once; 10% a rebuild with the same roots vs. the "
                 "graph before it; 40% 1-2 source edits (add/remove a dependency, module disappears, module becomes "
                 "unparsable) of modules that are entries of the graph, reload of the edited specifiers, vs. a "
                 "from-scratch build of the new sources. All histories run on the REAL code; the final real graph must "
                 "equal the model's (which executes the same history) and is judged against the alternative real "
                 "graph by the extracted judge (error referrers blanked: which importer is recorded legitimately "
                 "depends on request order). non-trivial = final graph with >= 3 entries"),
        "assumptions": [
            "reloaded specifiers are plain (attribute-less) targets: reload always requests a specifier as a root without attribute",
            "after a reload, entries outside the newly reachable set must be unchanged unless they are the reloaded specifiers themselves or new",
            "known findings F-C19a, F-C19b are reported as KNOWN-FINDING",
        ],
        "partial": ["convergence theorems over the model are not yet proved; decided per history on the real code"],
    },
    "C13": {
        "harness": "c13",
        "props_file": "Props/C13.v",
        "run_module": "Model.Codec Model.RunC13 Model.Jsr Model.RunJsr Model.RunJsrAll",
        "run_fn": "run_c13j",
        "pinned_theorems": ["C13_roundtrip", "C13_roundtrip_exact", "C13_roundtrip_unordered", "C13_enc_injective",
                            "C13_enc_injective_unordered", "C13_v1_upgrade_keys",
                            "C13_v1_upgrade", "C13_v1_upgrade_general", "C13_v1_no_pragma", "C13_v1_module",
                            "C13_v1_untouched", "C13_roundtrip_holdsb_correct", "C13_v1_holdsb_correct",
                            "C13_v1_model_holds"],
        "rule": ("part (a) of C13 (codec + moduleGraph1 upgrade), then part (b) on registry worlds. Cases, in this order: the exhaustive "
                 "enumeration of the discrete shapes (683: every static/dynamic kind x optional field presence x "
                 "attribute shape x argument shape, every reference/jsdoc variant x resolution mode, all 256 "
                 "subsets of non-empty ModuleInfo fields); the ModuleInfo of every module source embedded in "
                 "/repo/tests/specs/**/*.txt analysed by the real ParserModuleAnalyzer; every moduleGraph1/2 entry "
                 "of the corpus manifests; 138 hand-written decoder corner cases; then generated cases (quick 16k, "
                 "thorough 200k; 40% random ModuleInfo values with every field independently empty/non-empty and "
                 "strings incl. empty, quotes, NUL, non-BMP; 30% structurally mutated or random JSON through the "
                 "decoder; 20% moduleGraph1 entries with generated leadingComments incl. quote-less, case-folded, "
                 "non-ASCII and malformed ones; 10% moduleGraph2/1 selection in JsrPackageVersionInfo::module_info). "
                 "Compared: model_enc(mi) = real to_value(mi) as unordered JSON; model_dec(real_enc(mi)) = mi; "
                 "model_dec(j) = real from_value(j) for mutated j; model upgrade(j) = real module_graph_1_to_2(j) and "
                 "model decode = real module_info(); the real from_value/from_str round trips (also with permuted "
                 "keys) are checked directly; two proved decision procedures judge the real outputs. "
                 "non-trivial = info with a non-empty field / an effective mutation / an entry with leadingComments"),
        "assumptions": [
            "JSON at serde_json::Value level (text layer trusted); numbers are u64 below 2^62; other numbers are outside the modelled domain",
            "find_deno_types (regex) enters the model as a table computed by the real function; the theorems hold for every such function",
            "part (b): the last 3000 (quick) / 60000 (thorough) cases are generated registries (stage B2 worlds: 1-3 packages x 1-3 versions x 1-3 files, relative / jsr: / https-registry imports, static and dynamic, stale package documents, odd exports) in which EVERY version manifest embeds the module info the real analyser produces from the served sources, manifests carry the honest checksums and the file cache holds the same bytes or nothing; each world is built twice by the real builder, as published and with moduleGraph1/2 stripped from every manifest: the serialised graphs (modules, dependencies, redirects, errors, packages) must be equal; the with-info build must also equal the registry model (Model/Jsr.v), which takes its dependencies from the embedded info",
            "part (b) holds only under that proviso: a file whose served bytes fail the manifest checksum has its dependencies loaded in the embedded-info build (the module is built before its content arrives) but not in the parsing build; such worlds are in the C03/C05 streams, not here",
            "real from_value(model_enc(mi)) = mi is obtained from model_enc(mi) = real to_value(mi) as unordered values (compared on every case) and the real round trip with permuted object keys (checked directly on every case)",
            "the range attached to an upgraded types specifier is the one module_graph_1_to_2 computes (comment start + 2 + regex byte offsets -1/+1, unbounded arithmetic in the model); the property text does not constrain it. Observed on the real code: it differs from what the current analyser computes for the same source when the pragma is quote-less (14..24 instead of 15..23 for `// @deno-types=./a.d.ts`) or contains / is preceded by non-ASCII text (byte instead of character offsets), and `character` = usize::MAX in a manifest makes module_graph_1_to_2 overflow (panic with overflow checks)",
        ],
        "partial": ["part (b) (graph built from embedded module info equals graph built by parsing) is decided per case on the real code (relational) and against the registry model; it is not a theorem; the codec and the moduleGraph1 upgrade are proved and tied to the code"],
    },
    "C20": {
        "harness": "c20",
        "props_file": "Props/C20.v",
        "run_module": "Model.Text Model.RunC20",
        "run_fn": "run_c20",
        "pinned_theorems": ["C20_original_bytes", "C20_text_is_decoding", "C20_unchanged_iff", "C20_bom_only_iff",
                            "C20_changed_iff", "C20_size", "C20_undecodable", "C20_text_valid",
                            "C20_charset_header_wins", "C20_charset_remote_default", "C20_charset_file_sniff",
                            "C20_valid_utf8_iff", "C20_utf8_roundtrip", "C20_utf16_roundtrip",
                            "C20_holdsb_correct", "C20_model_holds",
                            "C20_jsr_fill_holds_outside_known_class", "C20_jsr_fill_original_bytes",
                            "C20_jsr_fill_ignores_header_refuted", "C20_new_unknown"],
        "rule": ("one case = one byte string and one media (ts, js, json; an enumerated string gives three cases) "
                 "served to the REAL code under every combination of content-type header "
                 "x scheme (file:, https:) x route (0: public parse_module; 1: real graph build "
                 "whose loader serves bytes + headers, JSON via `with {type: json}`; 2 (https): real build of a JSR "
                 "package whose version manifest carries the module info, so that the content is filled in afterwards; "
                 "3 (https, not in the base enumeration): the same package served from the cache), 12-348 combinations per case "
                 "(coverage.distribution.combinations = total). Byte strings: ALL strings of length <= 3 (quick) / "
                 "<= 4 (thorough) over {00,0A,41,7F,80,BF,C2,E0,ED,EF,BB,F0,F4,FE,FF} with 11 header shapes (none, "
                 "media only, utf-8, UTF-8, utf8, utf-16le, utf-16be, windows-1252, bogus, charset= in 2nd/3rd "
                 "position with spaces); ALL strings of length <= 2 (quick) / <= 3 (thorough) over that alphabet + "
                 "{D8,DC,9F,A0,8F,90,1B} with 58 header shapes for length <= 1 and a rotating 28 of them above (every UTF-8/UTF-16 label of encoding_rs, quoted, "
                 "empty, upper-case parameter name, Unicode white space, legacy encodings, replacement, "
                 "iso-2022-jp, unsupported media type); then 6000 (quick) / 90000 (thorough) structured or "
                 "random strings from one SplitMix64 state (valid UTF-8 with/without BOM, double BOM, UTF-16LE/BE "
                 "with right/wrong/no BOM, lone surrogates, odd length, overlong/surrogate/out-of-range/truncated "
                 "UTF-8, gb18030 BOM, ESC sequences, truncations) with up to 6 random header shapes each. Compared per "
                 "combination: header charset seen by the real resolver, error-vs-module, stored text bytes, "
                 "decoded kind, try_get_original_bytes(), size(), serialised size; the real observation is "
                 "also judged by the extracted decision procedure (C20_holdsb_correct). non-trivial = non-empty "
                 "byte string whose combinations show >= 2 different (outcome, kind) pairs; distinct = distinct "
                 "model input"),
        "assumptions": [
            "labels other than the UTF-8/UTF-16LE/UTF-16BE labels are answered by encoding_rs itself (oracle data: supported?, borrow rule, decoded scalars); the model adds BOM stripping, kind, original bytes, size on top",
            "media type resolution (extension / content-type media part) is data computed by the real crate",
            "module sources that do not parse are turned into dependency-free modules by a wrapping ModuleAnalyzer so that their stored text can be observed; texts that still start with U+FEFF are not handed to deno_ast (it panics on them in debug builds)",
            "serialised size equals the text length below 4 GiB (u32 truncation is modelled, larger texts are not generated)",
            "known finding F-C20a (the JSR deferred content fill ignores the charset of the response's content-type header) is reported as KNOWN-FINDING; the comparison of all observed values with the model is NOT suspended for it",
        ],
        "partial": ["on the JSR deferred content-fill route the text-is-decoding clause is proved only when the response header names no charset or a UTF-8 label (C20_jsr_fill_holds_outside_known_class); the unrestricted statement is refuted (C20_jsr_fill_ignores_header_refuted, F-C20a); the original-bytes and size clauses hold on every route"],
    },
    "C07": {
        "harness": "c07",
        "props_file": "Props/C07.v",
        "run_module": "Model.Packages Model.RunC07 Model.Jsr Model.RunJsr Model.RunJsrAll",
        "run_fn": "run_c07j",
        "pinned_theorems": ["C07_version_print_parse", "C07_version_parse_canonical", "C07_pkg_url_shape",
                            "C07_url_roundtrip", "C07_url_unique_owner", "C07_to_nv_result_roundtrips",
                            "C07_url_no_misattribution", "C07_url_no_misattribution_text",
                            "C07_no_misattr_judgement_correct",
                            "C07_loose_version_refuted", "C07_double_slash_refuted", "C07_slashless_base_refuted",
                            "C07_scheme_like_scope_refuted",
                            "C07_export_iff_listed", "C07_exports_keys_unique", "C07_export_string",
                            "C07_export_object", "C07_export_object_last_wins", "C07_norm_export_shape",
                            "C07_table_refines", "C07_table_no_panic", "C07_table_mappings",
                            "C07_table_versions_by_name", "C07_table_packages", "C07_table_packages_with_deps",
                            "C07_table_sets", "C07_registry_redirect", "C07_registry_table"],
        "rule": ("four streams by case number. (url) registry URLs as serialised by url::Url (6 plain http(s) directory "
                 "URLs incl. userinfo/port/sub-path, 8 odd ones: no trailing slash, query, fragment, file:, custom scheme) x "
                 "package names (@scope/name from a 6-letter alphabet so prefixes collide, no-@ scopes, 25 adversarial: "
                 "empty, extra/missing slashes, scheme-like, dot segments, %2e, query/fragment/space/non-ASCII/backslash) x "
                 "versions (incl. u64::MAX, pre-release, build metadata): the real recommended_registry_package_url, and "
                 "recommended_registry_package_url_to_nv on package URL + paths, _meta.json / meta.json siblings, 17 "
                 "non-canonical version spellings, doubled slashes, look-alike hosts and paths, other scheme, "
                 "percent-encoded and upper-cased forms, query/fragment inside, unrelated URLs, random 1-2 character "
                 "mutants; values compared with the model, the real results judged (no misattribution, round trip) by the "
                 "extracted decision procedure. (version) Version::parse_standard on ALL strings of length <= 5 (quick) / "
                 "<= 6 (thorough) over {0,1,.,-,+,v,a,=} plus random version-like texts with Unicode whitespace, u64 "
                 "overflow, leading zeros; compared as accepted + canonical re-print. (exports) "
                 "deno_semver::jsr::normalized_export_name on sub-paths; JsrPackageVersionInfo parsed by serde_json from "
                 "hand-assembled manifests (exports absent/string/object with string, null, bool, number, array, object "
                 "values and REPEATED keys/other JSON): export(k) for 12 keys and the exports() set. (table) histories of "
                 "0-10 operations on the real PackageSpecifiers through its public API (add_nv directly or on "
                 "ModuleGraph.packages, ModuleGraph::fill_from_lockfile entries with version texts the loose parser "
                 "accepts/rejects, requirements and name@versions that are Eq-distinct but Ord-equal through build "
                 "metadata); observers mappings, versions_by_name, package_exports, packages_with_deps, is_empty, "
                 "packages_len, package_deps_sum, used_yanked_packages. non-trivial = url: >= 2 accepted and >= 2 rejected "
                 "URLs; version: both outcomes; exports: a hit and a miss; table: some requirement added twice." + REG_TEXT + " Mapping flavour: few faults, 15% odd exports"),
        "assumptions": [
            "Url::join is modelled only where the WHATWG path state copies its input (http(s) base, characters outside the path percent-encode set, no dot segments, not scheme-like); elsewhere the real package URL enters the judgement as data",
            "PackageSpecifiers::{ensure_package, add_dependency, add_export, add_top_level_package, add_used_yanked_package, top_level_packages} are pub(crate): the real table is driven through add_nv and fill_from_lockfile only; the other operations are covered by the theorems but not by the correspondence until the builder model drives them",
            "known findings F-C07a (loose version text), F-C07b (doubled slash), F-C07c (registry URL that is not a plain directory URL), F-C07d (scheme-like scope) are reported as KNOWN-FINDING; the model/implementation comparison of all values is NOT suspended for them",
        ],
        "partial": ["builder-level part of C07: the redirect of a jsr: specifier is proved to be the selected version's export URL (C07_registry_redirect); that every mapped version satisfies its requirement and every recorded export is an export of the manifest is proved too (C07_registry_table); unknown-export errors, dependency edges and the remaining table contents are decided per case by the registry stream",
                    "no-misattribution is proved outside four input classes; the unrestricted statement is refuted (4 witnesses)"],
    },
    "C05": {
        "harness": "c05",
        "props_file": "Props/C05.v",
        "run_module": "Model.Graph Model.Walk Model.RunC15 Model.RunC02 Model.RunC14 Model.Prune Model.RunC17 Model.Builder Model.RunC01 Model.RunC19 Model.RunC05 Model.Jsr Model.RunJsr Model.RunJsrAll",
        "run_fn": "run_c05j",
        "pinned_theorems": ["C05_presented", "C05_rejected", "C05_one_retry", "C05_redirect_rejected",
                            "C05_recorded_once", "C05_recorded_value", "C05_text_hash_refuted",
                            "C05_registry_presents_manifest_checksum", "C05_registry_locker_told_only_new",
                            "C05_registry_rejected_never_admitted", "C05_registry_call_judge_correct", "C05_registry_model_calls_judged_true"],
        "rule": ("C01 worlds, mostly remote, where 12% of remote sources carry a UTF-8 BOM or are served as UTF-16 "
                 "with a charset header and 15% of remote specifiers serve different bytes under CacheSetting::Reload; "
                 "lockfile absent (15%) or holding entries for ~45% of the remote specifiers (incl. redirecting, missing "
                 "and erroring ones): 60% matching the served bytes, 20% matching only the Reload bytes, 20% matching "
                 "neither. The harness loader verifies with the real LoaderChecksum::check_source; its locker logs every "
                 "call. Compared with the model: graph, every loader call (specifier, asset, cache setting, presented "
                 "checksum) and every set_remote_checksum call. Judged on the real observation by the extracted "
                 "c05_holds; and the same world is built AGAIN on the real code with the lockfile the first build "
                 "produced: no recorded checksum may be rejected for unchanged content. non-trivial = lockfile with "
                 ">= 1 entry and (an integrity error or a recorded checksum)." + REG_TEXT + " Checksum flavour: always a locker, 30% https imports into the registry"),
        "assumptions": [
            "the loader honours its contract: content whose SHA-256 differs from the presented checksum is rejected with ChecksumIntegrity",
            "the per-specifier judge of the B1 stream applies to loaders that report redirects as LoadResponse::Redirect (modules answered under another final specifier are covered by the C01/C03 streams and the registry stream)",
            "known finding F-C05a is reported as KNOWN-FINDING",
        ],
        "partial": ["registry half: presentation of manifest checksums is proved (C05_registry_presents_manifest_checksum), and that every admitted source of a package file has the manifest's checksum (C05_registry_rejected_never_admitted, for loaders that report the requested specifier as final); the locker is told a package-manifest checksum only for versions the lockfile did not know and with the manifest's own checksum (C05_registry_locker_told_only_new); presentation of the lockfile's package-manifest checksum and the integrity error on a mismatch are decided per case by the correspondence"],
    },
    "C16": {
        "harness": "c16",
        "props_file": "Props/C16.v",
        "run_module": "Model.Symbols Model.RunC16",
        "run_fn": "run_c16",
        "pinned_theorems": ["C16_exports_set", "C16_own_first", "C16_terminates", "C16_names_okb_correct",
                            "C16_wf_checker_sound", "C16_goto_terminates_partial", "C16_goto_sound_partial",
                            "C16_goto_results_checked",
                            "C16_dotted_namespace_refuted", "C16_import_conflict_refuted"],
        "rule": ("one case = one multi-module program analysed by the REAL RootSymbol: (1) every spec file of "
                 "/repo/tests/specs/symbols and /repo/tests/specs/graph (all script sources of the spec are roots; JSR "
                 "manifests get their checksums filled in as the spec runner does), (2) 13 hand-written programs (star "
                 "cycles, self re-export, diamond, unresolved stars, dotted/merged namespaces, go-to-definition chains and "
                 "cycles, import-equals aliases, circular import aliases), (3) generated programs of 2-6 modules "
                 "(.ts/.d.ts/.js/.mjs/.mts/.tsx, JS modules typed by @ts-self-types siblings, a JSON module, a broken "
                 "module, a redirect, missing and npm: targets): function overloads, classes with static/instance/"
                 "private/#private members, accessors, auto-accessors, index signatures, constructor overloads and "
                 "parameter properties, interfaces with call/construct/index/method/accessor signatures, type aliases, "
                 "(const) enums, nested/dotted/merged/ambient namespaces, destructuring variables, default exports of "
                 "every form, export =, export lists and aliases, import forms incl. import type / import x = require / "
                 "import A = N.B / export import, export * / export * as / export {..} from / export type * with cycles, "
                 "expando properties, declaration merging inside the groups TypeScript allows; names are drawn from an "
                 "8-name pool shared by all modules so that star re-exports collide. 20% of the generated programs are "
                 "adversarial (parseable but rejected by TypeScript: import bindings re-declared locally, incompatible "
                 "merges, several default exports). Per module, through the public API: the symbol table is dumped and "
                 "judged by the extracted proved-sound checker wf_symtabb; ModuleInfoRef::exports() (complete resolved "
                 "map with re-export paths, unresolved list) is compared with the model's exports_of computed from the "
                 "dumped own exports, `export *` specifiers, ModuleGraph::resolve_dependency answers and the "
                 "module_from_specifier table, and its name set is judged by names_okb; "
                 "go_to_definitions_or_unresolveds is called on EVERY symbol under a 5 s watchdog (programs in the input "
                 "class of F-C16c run in a child process first), every result is judged by goto_okb, and - for programs without an "
                 "`import X = A.B` declaration (about 2/3 of them) - the complete ordered result lists are compared with the "
                 "model's goto_defs. non-trivial = "
                 ">= 2 analysed modules, >= 10 symbols and >= 1 resolved star re-export; distinct = distinct abstract input"),
        "assumptions": [
            "(a) is a proof about the model of exports_and_re_exports_inner; the SymbolFiller (b) is NOT modelled: real tables are checked per explored module by the extracted, proved-sound checker (translation-validation strength)",
            "(c) find_definition_paths_internal / go_to_file_export are modelled and proved terminating and sound for the fragment without qualified names only (QualifiedTarget / resolve_qualified_name are not modelled: with them termination is false, F-C16c); for programs with qualified names termination is watched (5 s) and results are checked by the proved-sound result checker",
            "resolve_dependency and module_from_specifier enter the export model as data computed by the real crate",
            "symbol names are compared as the API reports them (Symbol::maybe_name / SymbolDecl::maybe_name); alias symbols (a non-definition declaration) must not be listed as child or member, as in tests/helpers",
            "known findings F-C16a (dotted namespace segment re-declared in its body: a symbol is its own child / listed twice), F-C16b (programs TypeScript rejects for conflicting declarations: mixed alias/definition symbols, differing declaration names) and F-C16c (circular import alias: go-to-definition overflows the stack) are reported as KNOWN-FINDING",
        ],
        "partial": ["export resolution is proved for the model; tree shape is decided per explored output by a proved-sound checker (the SymbolFiller is not modelled); go-to-definition is proved terminating/sound only for the fragment without qualified names (C16_goto_*_partial), the unrestricted termination claim is false (F-C16c)"],
    },
    "C08": {
        "harness": "c08",
        "props_file": "Props/C08.v",
        "run_module": "Model.TextPos Model.Pragma Model.RunC08",
        "run_fn": "run_c08",
        "pinned_theorems": ["C08_pos_roundtrip", "C08_pos_roundtrip_bom_refuted", "C08_pos_inside_char_refuted",
                            "C08_pos_monotone", "C08_slice_exact", "C08_recognise_capture", "C08_range_exact",
                            "C08_range_html_comment_refuted", "C08_quoteless_capture_swallows_refuted", "C08_includes", "C08_lookup_own_range", "C08_lookup",
                            "C08_lookup_touching_refuted", "C08_ranges_apart_decided", "C08_items_apart_decided",
                            "C08_deps_apart_lookup", "C08_quoted_judge_correct", "C08_literal_judge_correct",
                            "C08_once_judge_correct"],
        "rule": ("(1) every module source embedded in /repo/tests/specs/**/*.txt (spec-file format of "
                 "tests/specs_test.rs; JS/TS-like media types) and hand-written seeds, (2) generated programs "
                 "(80% structured with a planted dependency list, 20% adversarial): js/mjs/cjs/jsx/ts/mts/tsx/d.ts, "
                 "LF/CRLF/CR, BOM, shebang, header pragmas (triple-slash path/types+resolution-mode, @ts-self-types, "
                 "@jsxImportSource(+Types), wrong-kind look-alikes), static imports/exports (attributes, type-only, "
                 "import-equals, declare module), import types incl. nested, dynamic import/require with literal, "
                 "template, concatenation and opaque arguments inside functions/try/if, @ts-types/@deno-types incl. "
                 "quote-less, JSDoc import()/@import, sourceMappingURL, string literals with \\x, \\u, \\u{}, "
                 "line-continuation escapes, trivia with non-ASCII/astral/combining characters on the same line: the "
                 "REAL ParserModuleAnalyzer::analyze_sync and the REAL deno_graph::parse_module are run; every "
                 "reported specifier range is mapped back with the extracted offset_of_pos and judged by the proved "
                 "Coq procedures (slice = literal whose cooked value per the real parser is the reported text / "
                 "quoted or quote-less pragma text; pairwise separation; planted = reported as multisets; "
                 "first/middle/last/end position lookups through the real Dependency::includes return the owning "
                 "dependency); for pragma items the model's recogniser + comment_range run on the real comment must "
                 "reproduce the reported (range, text, resolution mode); (3) 50 000 comment texts per regex function "
                 "(x10) structured around the keyword: random case, U+017F, Unicode White_Space and look-alikes, "
                 "quote variants, near-misses, second candidates - model recogniser vs the real find_* functions; "
                 "(4) 20 000 texts: pos_of_offset on EVERY byte offset vs the real Position::from_source_pos "
                 "(text_lines), incl. offsets inside multi-byte characters and BOM-led texts. non-trivial = analysis "
                 "case with >= 2 reported items, a line break or non-ASCII text, and an item not at 0:0 / batch with "
                 "both matching and non-matching texts / batch with a line break and a multi-byte character"),
        "assumptions": [
            "the SWC parser is not modelled: completeness of dependency discovery w.r.t. real syntax is sampled by the generator (planted = reported) and not proved (layer (b) of DESIGN.md C08, the mini-syntax collector model, is not built yet)",
            "the cooked value of a string / template literal is data computed by the real parser on the slice",
            "the JSDoc mini-parsers (monch) are not modelled; their output is judged, not predicted",
            "known findings F-C08a (HTML-like comments: ranges off by one / analysis panics) and F-C08b (a quote-less pragma capture that swallows a JSDoc import) are reported as KNOWN-FINDING",
        ],
        "partial": ["theorems cover range arithmetic, recognisers and lookups for all strings; 'every dependency exactly once' "
                    "is decided per generated program by the proved multiset judge, not proved over a syntax model",
                    "C08_pos_roundtrip excludes offset 0 of a BOM-led text and offsets inside a character (both refuted with witnesses that agree with text_lines)"],
    },
    "C09": {
        "harness": "c09",
        "props_file": "Props/C09.v",
        "run_module": "Model.Lattice Model.FcClosure Model.RunC09",
        "run_fn": "run_c09",
        "level": "proof",
        "pinned_theorems": ["L_extend_sound", "L_extend_covers", "L_extend_no_more", "L_extend_strict",
                            "L_exports_extend_sound", "L_exports_extend_covers", "L_exports_extend_no_more",
                            "L_add_sound", "L_add_covers", "L_add_none", "L_add_no_more_state",
                            "L_add_exact_outside_class", "L_add_no_more_outside_class",
                            "L_add_exact_refuted", "L_add_no_more_refuted", "L_terminates", "L_measure_bounded",
                            "L_add_qualified_den", "L_from_parts_den", "L_add_named_den",
                            "C09_closedb_correct", "C09_exportedb_correct", "C09_private_member_class",
                            "C09_dangling_outside_known_class", "C09_closed_ambient_private_refuted"],
        "exhaustive": {"quick": True, "thorough": True},
        "rule": ("four streams by case number. (lattice sequences) 2119 (quick) / 60000 (thorough) random cases through the "
                 "cfg-guarded hooks of /repo: NamedSubset operation sequences of 1-12 operations (from_parts, add, "
                 "add_qualified, add_named, extend) over the 5-name universe {default,a,b,prototype,c} with values of nesting "
                 "depth <= 3 and random key insertion order, batches of Exports::extend pairs, and ImportedExports::add "
                 "sequences of 1-12 increments; after every operation the real state and returned difference are compared "
                 "STRUCTURALLY (key order included) with the extracted model. (lattice pairs, exhaustive) ALL ordered pairs "
                 "of ImportedExports values of nesting depth <= 2 over 2 names incl. default (quick: 38 x 38) / 3 names "
                 "(thorough: 1002 x 1002), the increment's keys in the opposite insertion order. (corpus) every spec under "
                 "/repo/tests/specs/graph/fast_check (recursively, 108 files) and tests/specs/graph/jsr (35 files) is served "
                 "from memory, built and fast-checked by the REAL code as the spec runner does (fast_check_dts = false). "
                 "(generated) 700 (quick) / 12000 (thorough) worlds of 1-3 JSR packages with 1-4 modules (.ts/.tsx/.d.ts, "
                 "optionally a second entrypoint) of 3-9 declarations (interface, type alias, class with public/static/"
                 "private members, accessor, optional base class, function with/without overloads and default parameters, "
                 "const with literal or typed initialiser, enum, namespace with exported/private/nested members, type+value "
                 "of one name with either exported), exported or private, types drawn at random from local declarations, "
                 "namespace-qualified members, typeof values, named/aliased/type-only/namespace/default imports from "
                 "sibling modules and other packages, import types (plain and qualified), named/aliased/star/namespace "
                 "re-exports, local export lists and default exports; 12% of packages get a fast-check error. For every "
                 "emitted module the harness re-parses original and output with deno_ast + scope analysis, decodes the "
                 "source map (own VLQ decoder) and hands the facts to the extracted judge closedb (proved = Closed): (1) "
                 "parses with the source's media type, (2) no identifier bound at module level in the original is "
                 "unresolved in the output, (3) every name imported/re-exported (incl. import-type qualifiers) from a "
                 "module of the graph is exported by that module's emitted text (its original when it has none) through "
                 "export-star chains, (4) every relative specifier is a key of the fast-check dependencies that resolves in "
                 "the graph, (5) source map decodes, every segment lies inside both texts, every generated identifier "
                 "token that starts at a segment maps to the same identifier (keywords, modifier keywords in the original, "
                 "the same name as a string-literal key, and a second segment at the same position that maps correctly "
                 "are exempt). non-trivial = lattice case with >= 3 operations, or a world with an emitted module in which >= 1 private module-level declaration was pulled in by reference and >= 1 was dropped; "
                 "distinct = distinct model input"),
        "assumptions": [
            "the tracer (analyze_module_info) and the transform are NOT modelled: closure of real outputs is judged per output by the proved decision procedure, not proved for all inputs",
            "clause 5 (source maps) concerns SWC's emitter: checked per output, no theorem",
            "IndexMap invariant (unique keys at every level) is a hypothesis of the lattice laws (wf_n / wf_e / wf_i) and is proved preserved by every operation",
            "scope analysis (which identifiers are unresolved / module-level) is SWC's resolver as exposed by deno_ast; the export tables are read from the re-parsed AST by the harness",
            "known finding F-C09a (private members of ambient classes keep references to untraced declarations) is reported as KNOWN-FINDING; all other clauses of those modules are still judged",
        ],
        "partial": ["closure is proved for the lattice only (L_*); for the tracer/transform it is decided per real output (C09_closedb_correct), generated and corpus",
                    "L_add_sound as an equality and L_add_no_more are refuted in one class (qualified `default` meets Star: over-approximation, L_add_exact_refuted / L_add_no_more_refuted) and proved outside it",
                    "the statement 'every emitted module is closed' is refuted for ambient classes with private members referencing private declarations (C09_closed_ambient_private_refuted, F-C09a)"],
    },
    "C12": {
        "harness": "c12",
        "props_file": "Props/C12.v",
        "run_module": "Model.FcDriver Model.RunC12",
        "run_fn": "run_c12",
        "level": "proof",
        "pinned_theorems": ["C12_all_or_nothing", "C12_entries_homogeneous", "C12_all_or_nothing_hit_success",
                            "C12_all_or_nothing_hit_failure", "C12_aonb_correct", "C12_all_or_nothing_warm_refuted",
                            "C12_deterministic", "C12_handled_is_closure", "C12_cache_soundb_correct",
                            "C12_cache_transparent_partial", "C12_no_cache_no_write", "C12_cache_transparent_refuted",
                            "C12_stale_failed_class"],
        "rule": ("one case = one HISTORY on the real code. Worlds: 8 corpus specs (the five cache__* specs, the two "
                 "workspace_fast_check specs (collect-all-diagnostics mode), basic); 400 (quick) / 10000 (thorough) "
                 "generated worlds of 1-4 JSR packages (generator of C09 without cross-package `export *`, 35% of the "
                 "packages failing fast check through a transform diagnostic or a tracer diagnostic, optional second "
                 "entrypoint, optionally a module that is in the graph but never traced), 12% of them the retrace "
                 "shape (a diagnostic of an early module caused by a trace that starts in a later module), 18% DIAMONDS "
                 "(2-3 packages whose public API references a common package D through a type import, an import type, "
                 "a named re-export, a base class or an inner module; D top-level in 40%, D depending on a further "
                 "package in some; prescribed edit: one referrer stops using D / the root stops importing a referrer / "
                 "the root stops importing D). For every package the set of packages its traced public API references "
                 "is obtained by running the real tracer on that package ALONE (hook), independently of what the "
                 "multi-package run recorded; the model writes that set into the cache entry and the real entry's "
                 "dependencies are compared with it. History: "
                 "sources v1 without cache (5 runs: determinism), with a shared in-memory FastCheckCache cold, then "
                 "warm; ONE source is edited (the erroring module: error removed / private edit, an entrypoint, an "
                 "untraced module, a public declaration added, a private declaration added, an error introduced, the "
                 "root stops importing one package (registry worlds), a "
                 "comment; any package, so dependency packages too); v2 without cache, with the now stale or still "
                 "valid cache, warm; v1 again with the cache twice (8 steps). Per world state the harness abstracts "
                 "what the REAL tracer found (hook verif_public_ranges: module order, dependencies; outcomes from the "
                 "cache-less run) and the extracted driver model, threading its OWN cache, predicts for every step "
                 "the fast-check slot of every module (output id / diagnostics with codes and specifiers / none), the "
                 "full cache content (keys, dependencies, per-module kind + source hash + output) and the get/set "
                 "traffic; all compared with the real run. The real slots are judged by extracted, proved decision "
                 "procedures: all-or-nothing per package (aonb), emitted modules (text, source map, dependencies) "
                 "identical to the cache-less run on the same sources, recorded dependency keys = specifiers the "
                 "emitted text declares (re-analysed with the real ParserModuleAnalyzer), and the read-set hypothesis "
                 "of the transparency theorem (cache_soundb). Plus 160 (quick) / 4000 (thorough) relational histories "
                 "on worlds WITH cross-package `export *` (25% of them the F-C12c shape), where only "
                 "cached-vs-cache-less equality and determinism are judged. non-trivial = history with >= 1 cache hit "
                 "and >= 2 cache writes (relational: >= 1 emitted module); distinct = distinct model input"),
        "assumptions": [
            "the tracer and the transform are data: per world state, module order / dependencies come from the hook and outcomes from the real cache-less run; the model covers the driver, the cache protocol and the slot assignment",
            "what the tracer records for a package is assumed to be a function of the sources; this is false when another package re-exports * from it (tracing reaches across packages), so those worlds are judged relationally only (F-C12c)",
            "source hashes are interned source texts (equal hash <=> equal source); the real u64 hashes are mapped to these ids when an entry is written",
            "cache entries whose serialized module info fails to deserialize are not generated",
            "Err outcomes carry at least one diagnostic (outcomes_wf), as in the code",
            "known findings F-C12a (warm failed entry misses an entrypoint), F-C12b (FAILED entry validates although its cause changed; a disagreement of a successful entry with the sources is NOT in the class) and F-C12c (cross-package export * + default somewhere in the history) are reported as KNOWN-FINDING; model/implementation comparison of slots, cache and traffic is NOT suspended for F-C12a/b",
            "workspace worlds keep every member reachable from the root: a member handed to workspace fast check whose export module is not in the graph makes ModuleGraph::build_fast_check_type_graph panic (module_slots.get_mut(..).unwrap(), graph.rs) - outside the driver's contract, not generated",
        ],
        "partial": ["C12_cache_transparent_partial has the read-set property of the tracer as an explicit hypothesis (CacheSound), checked on every step of every history; the hypothesis is FALSE in general (C12_cache_transparent_refuted, F-C12b)",
                    "all-or-nothing after a cache hit on a failed entry holds only for the entrypoints the entry lists (C12_all_or_nothing_hit_failure); the full statement is refuted (C12_all_or_nothing_warm_refuted, F-C12a)",
                    "determinism is proved as independence of the package iteration order; repeated real runs are compared",
                    "'recorded dependencies = declared by the emitted text' is checked per emitted module, not proved (fill_module_dependencies belongs to C01/C08)"],
    },
}

PROPS["C10"] = {
    "harness": "c10",
    "props_file": "Props/C10.v",
    "run_module": "Model.FcSummary Model.FcTransform Model.RunC10",
    "run_fn": "run_c10",
    "pinned_theorems": ["C10_erasedb_correct", "C10_erasedxb_correct", "C10_leavable_decided", "C10_fn_decided",
                        "C10_param_decided", "C10_member_decided", "C10_item_decided", "C10_classes_sound",
                        "C10_classes_none", "C10_model_erased_or_diagnostic",
                        "C10_model_strict_outside_known_classes", "C10_model_family", "C10_model_ctor",
                        "C10_first_error", "C10_arrow_kept_refuted", "C10_signature_no_return_type_refuted",
                        "C10_param_property_refuted"],
    "rule": ("three streams by case number. (corpus) every spec of tests/specs/graph/fast_check (incl. sub-directories) and "
             "tests/specs/graph/jsr (143 worlds) is rebuilt and run exactly as the spec runner does (port of parse_spec, "
             "fill_jsr_meta_files_with_checksums, TestLoader, WorkspaceMemberResolver; GraphKind::All build, then "
             "build_fast_check_type_graph with the spec's cache / workspace options), followed by 6 hand-written seed packages "
             "(one witness per known finding, two non-vacuity packages). (judged) generated JSR-style packages from an "
             "abstract mini-TS syntax (harness/src/fcheck/pkggen.rs): 1-4 modules x 3-15 declarations (functions with "
             "overloads, classes with constructors incl. parameter properties / methods / accessors / auto-accessors / "
             "properties / index signatures / static blocks, public | protected | private | #private, static, decorators, "
             "abstract; const/let/var; interfaces; aliases; enums; namespaces; default exports; export lists, re-exports, "
             "export *, export * as; parameters ident / optional / default / rest / destructured with or without "
             "annotation; initialisers from the leavable grammar, the simply-inferable forms and non-leavable forms; return "
             "statements in nested control flow; 20% adversarial packages add ambient forms, using, require, global "
             "augmentation, destructuring exports, export as namespace, expando properties), 70% served from the registry "
             "(first diagnostic only), 30% as workspace members (all diagnostics). Every module the REAL fast check emits "
             "is re-parsed with deno_ast, summarised (fcheck/sum.rs) and judged by the extracted, proved decision procedure "
             "erasedb; the count of function-likes is compared as a wire check. (model) one-module packages in which every "
             "declaration is exported: for every public function-like (function, const arrow / function expression, "
             "constructor incl. parameter properties, method, accessor) the source summary (fcheck/srcsum.rs) is given to "
             "the extracted MODEL of the transform, whose result - the diagnostics in raising order, or the emitted shape "
             "(per parameter: pattern, annotation class, optional, default class tree; return annotation class; async; "
             "generator; body shape; the synthesised property declarations of a constructor) - must equal what the real "
             "transform did (workspace mode collects all diagnostics; emitted shapes of undiagnosed units come from a "
             "second real run without the diagnosed declarations). The model stream starts with an EXHAUSTIVE small domain: all 3650 combinations of kind x return annotation x plain/async/generator x 10 body shapes (returns in if / if-else / loops / try / switch / nested function) x parameter lists (30 single and paired parameter forms) x arrow expression bodies, minus the syntactically impossible ones (2104 units). non-trivial = judged: some module emitted with a "
             "function-like or class; model: some unit emitted and some unit diagnosed. quick: 12000 judged + 8000 model "
             "packages; thorough: 300000 + 200000"),
    "assumptions": [
        "the property is decided on SUMMARIES of the emitted text: the SWC parser is trusted to parse what the emitter printed, and harness/src/fcheck/sum.rs is trusted to classify the AST (expression classes, placeholder recognition, body shapes); a summariser that loses a difference hides it",
        "'literal-like' is read as the code's documented leavable grammar (DESIGN.md C10); ambient items (declaration files, declare) are passed through by design and only required to have no bodies; enum declarations are opaque (the spec corpus pins computed enum initialisers being carried over); a TS-private constructor keeps its existence with no parameters",
        "known findings F-C10a (arrow with leavable expression body keeps body, async and no return type), F-C10b (bodyless signature without return type passes silently), F-C10c (parameter property without type becomes `declare x;`) are reported as KNOWN-FINDING; the model/implementation comparison is NOT suspended for them",
        "the model covers the function-like fragment (transform_fn, transform_arrow, transform_function_body_block_stmt, handle_param_pat, ParamsOptionalStartIndex, maybe_transform_expr_if_leavable, maybe_infer_type_from_expr, infer_simple_type_from_type, analyze_return_stmts_in_function_body, constructor part of transform_class_member); is_overload and the set of public ranges are inputs (the tracer is not modelled here); Symbol() is recognised syntactically (the generator never shadows Symbol)",
    ],
    "partial": ["sub-language: the transform model covers function-likes, parameters, leavable initialisers and constructors; "
                "classes/properties/variables/namespaces/imports are covered by the per-output judgement only",
                "the full statement is refuted for the model (3 witnesses, F-C10a-c); proved: erased up to those classes for all "
                "inputs, and strictly erased for sources without the three constructs"],
}

PROPS["C11"] = {
    "harness": "c11",
    "props_file": "Props/C11.v",
    "run_module": "Model.FcSummary Model.FcTransform Model.RunC10 Model.RunC11",
    "run_fn": "run_c11",
    "pinned_theorems": ["C11_api_preservedb_correct", "C11_items_decided", "C11_item_decided", "C11_class_decided",
                        "C11_member_decided", "C11_fn_decided", "C11_param_decided", "C11_subrel_decided",
                        "C11_classes_sound", "C11_classes_none", "C11_paren_refuted"],
    "rule": ("same corpus (143 spec worlds), seed packages and generated packages as C10's judged stream. For every module the "
             "REAL fast check emitted, the original and the emitted text are summarised with one string interner (canonical "
             "text = SWC printer output without whitespace; equal id <-> equal text). Resolved export name sets come from the "
             "real symbol API (ModuleInfoRef::exports) on the original graph and on a SECOND real graph in which every module "
             "with fast-check output is served with that output. Generated packages add the generator's intent: declared "
             "names that are neither exported from an entrypoint (directly, by export list, re-export, export *, export * as) "
             "nor reachable from such a declaration through references in annotations, heritage clauses, retained or "
             "analysed initialisers and enum initialisers. The extracted, proved decision procedure judges four clauses per "
             "pair: emitted exports are a subset of the original's; equal at entrypoints; every retained item matches its "
             "original (kind, name, export form, type parameters, heritage, written annotations by text, members, modulo the "
             "documented normalisations); no intent-dropped name is declared - at the top level of the module, or nested: 18% of "
             "the generated packages have a private namespace nest reached from the public API only through a qualified path of "
             "three to five segments, and every sibling declaration on the way (exported inside its namespace or not, dead "
             "sibling namespaces) must be absent from the output (declares_path). The number of declared names is compared as a "
             "wire check. non-trivial = corpus/seed pair, or generated package with both retained public names and "
             "intent-dropped names. quick 12000 generated packages; thorough 300000"),
    "assumptions": [
        "export name sets are DATA computed by the real deno_graph symbol API on both sides (for the emitted side on a second graph built from the emitted texts); they are not re-derived in Coq",
        "annotation texts are compared through SWC's printer (to_code) with whitespace removed; `T | undefined` is recognised by the harness on the AST (last union member `undefined`)",
        "the generator's intent counts as 'referenced from the public API' also the operands of initialisers that the dependency analysis visits although the transform drops them (template operands, operands of inferred defaults): declarations kept only because of such operands are NOT reported (see the report: an over-retention of the tracer, arguably outside the statement's letter)",
        "overload implementations, TS-private members, private constructors' parameters, #private members, static blocks, auto-accessors and parameter properties are compared up to their documented erasure (reading guide in Model/RunC11.v)",
        "known finding F-C11a (optional/default parameter of function / constructor / conditional type before a required one loses its parentheses) is reported as KNOWN-FINDING",
    ],
    "partial": ["per-pair verified check only: there is no Gallina model of the tracer / of declaration retention here (C09's tracer model is not built); "
                "'neither exported nor referenced' is checked against the generator's recorded intent for generated packages and not for the corpus"],
}
