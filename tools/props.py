"""Per-property configuration of tools/check."""

PROPS = {
    "C15": {
        "harness": "c15",
        "props_file": "Props/C15.v",
        "run_module": "Model.Graph Model.Walk Model.RunC15",
        "run_fn": "run_c15",
        "pinned_theorems": ["C15_terminates", "C15_once", "C15_exact", "C15_entries", "C15_errors"],
        "rule": ("worlds of 2-10 modules generated from one SplitMix64 state (JS/TS/JSX/TSX/d.ts/JSON, "
                 "static/dynamic/type-only/@deno-types/reference/self-types/x-typescript-types imports, "
                 "file/http/https, redirects, missing, erroring, external, lockfile-seeded and "
                 "caller-inserted redirects incl. cycles) are built with the real builder; each graph "
                 "is walked with 6 random (kind, follow_dynamic, check_js incl. custom, "
                 "prefer_fast_check, roots, skip policy) queries by the real iterator and by the "
                 "extracted model; yielded (specifier, entry kind) multisets and error multisets must "
                 "be equal. non-trivial = graph with >= 2 modules and >= 6 yields over its queries; "
                 "distinct = distinct abstract (graph, queries) input"),
        "assumptions": [
            "roots are given as a set (the property quantifies over root subsets)",
            "URL/scheme/media-type facts enter the model as data computed by the real crates",
        ],
    },
    "C02": {
        "harness": "c02",
        "props_file": "Props/C02.v",
        "run_module": "Model.Graph Model.Walk Model.RunC15 Model.RunC02",
        "run_fn": "run_c02",
        "pinned_theorems": ["C02_validate_iff", "C02_valid_iff", "C02_valid_edges",
                            "C02_reachable_failure_not_skipped_outside_known_class", "C02_error_names",
                            "C02_failsb_correct", "C02_follow_dynamic_missing_root_refuted"],
        "rule": ("same real graphs as C15 (faults: missing, load error, parse error, unsupported media, bad "
                 "resolution, https->http, literal file:// from remote, behind static/dynamic/code/type edges "
                 "and redirect chains); 8 validations per graph (the first is ModuleGraph::valid() itself, the "
                 "others random kind x follow_dynamic x check_js x prefer_fast_check x root subsets). The real "
                 "verdict is judged by the extracted, proved-correct decision procedure (failsb) and compared "
                 "with the model's verdict. non-trivial = graph with >= 2 modules where some but not all "
                 "validations fail"),
        "assumptions": [
            "roots are given as a set",
            "known finding F-C02a (follow_dynamic drops Missing slot errors that no dependency reports) is reported as KNOWN-FINDING",
        ],
        "partial": ["for follow_dynamic = true only C02_reachable_failure_not_skipped_outside_known_class is proved; the iff is refuted (F-C02a)"],
    },
    "C14": {
        "harness": "c14",
        "props_file": "Props/C14.v",
        "run_module": "Model.Graph Model.Walk Model.RunC15 Model.RunC02 Model.RunC14",
        "run_fn": "run_c14",
        "pinned_theorems": ["C14_resolve_terminates", "C14_resolve_reaches_end", "C14_idempotent", "C14_walk_end",
                            "C14_agree", "C14_specifiers_one_hop", "C14_prefer_types", "C14_prefer_code",
                            "C14_cycle_refuted", "C14_ten_hops_refuted", "C14_specifiers_two_hops_refuted",
                            "C14_shadow_refuted"],
        "rule": ("worlds built around 1-3 redirect chains of length 1..13 (quick) / 1..26 (thorough), made of loader "
                 "redirects and/or lockfile-seeded redirects, ending at a module, a missing module, a load error, or "
                 "cycling back into the chain; loader max_redirects in {3,10,25}; modules import chain heads "
                 "statically/dynamically/type-only and via @deno-types/@ts-self-types. For EVERY specifier known "
                 "to the graph the real resolve/get/contains/try_get/try_get_prefer_types and the end of the REAL "
                 "walk from it are compared with the model's; specifiers() and resolve_dependency(+-types) of every "
                 "dependency likewise; the extracted decision procedure judges the real lookups against the real "
                 "walk end. non-trivial = graph with >= 2 redirects"),
        "assumptions": [
            "known findings F-C14a (cycle), F-C14b (>9 hops), F-C14c (specifiers() one hop only), F-C14d (entry at a redirect source) are reported as KNOWN-FINDING; the model/implementation comparison of all lookup values is NOT suspended for them",
        ],
        "partial": ["agreement with the walk is proved for chains of <= 9 hops without shadowing; the unrestricted statement is refuted (4 witnesses)"],
    },
    "C17": {
        "harness": "c17",
        "props_file": "Props/C17.v",
        "run_module": "Model.Graph Model.Walk Model.RunC15 Model.RunC02 Model.RunC14 Model.Prune Model.RunC17",
        "run_fn": "run_c17",
        "pinned_theorems": ["C17_terminates", "C17_entries", "C17_code_view_unchanged", "C17_no_types_left",
                            "C17_code_only_noop"],
        "rule": ("worlds of 2-10 modules satisfying the same-attribute proviso (the `type` attribute used for a "
                 "target is a function of the target; roots/configured imports/redirect sources are requested "
                 "without attribute), default build options; each world is built three ways on the REAL code: "
                 "all kinds, all kinds + prune_types, code only (without configured type imports). Checked: real "
                 "prune result == model prune of the abstracted all-kinds graph (full structural equality), "
                 "nothing type-related left in the real pruned graph, and observational code-equality of the "
                 "real pruned graph with the real code-only build (extracted obs_code_eqb: entries with module "
                 "kind/media/error kind, redirects, code edges as sets with targets and dynamic flags, valid() "
                 "verdict). non-trivial = all-kinds graph with >= 3 entries of which pruning removes at least one"),
        "assumptions": [
            "default build options (with skip_dynamic_deps a dynamically imported module loaded through a type edge survives pruning but is absent from the code-only build: recorded as an observation in DESIGN.md)",
            "known findings F-C17a (context-dependent acceptance of attribute-less JSON) and F-C17b (position of the TooManyRedirects error on a redirect cycle) are reported as KNOWN-FINDING",
        ],
        "partial": ["the build-level equality prune(build All) = build CodeOnly is decided on the real code per case; its theorem over a builder model is not yet proved"],
    },
    "C18": {
        "harness": "c18",
        "props_file": "Props/C18.v",
        "run_module": "Model.Graph Model.Walk Model.RunC15 Model.RunC02 Model.RunC14 Model.Prune Model.RunC17 Model.RunC18",
        "run_fn": "run_c18",
        "pinned_theorems": ["C18_terminates", "C18_clone", "C18_entries", "C18_self_contained_correct",
                            "C18_typesonly_refuted"],
        "rule": ("same proviso worlds as C17, graph kind in {All, CodeOnly, TypesOnly} (configured type imports only "
                 "for kinds that include types), 1-2 segment roots among the graph's modules (12%: the original "
                 "roots, exercising the clone shortcut). Checked on the REAL code: real segment == model segment "
                 "of the abstracted graph (full structural equality); every dependency of every module of the real "
                 "segment resolves (with and without type preference) and try_gets as in the real original, and "
                 "three validations agree (extracted self_contained, proved equivalent to the declarative "
                 "statement); entries+redirects of the real segment == those of a real direct build of the segment "
                 "roots. non-trivial = segment roots not all original roots, segment has >= 2 entries and fewer "
                 "than the original"),
        "assumptions": [
            "known findings F-C18a (types-only segment drops a JS module that has a types dependency), F-C18b (context-dependent acceptance of attribute-less JSON, same cause as F-C17a) and the C14 entry-at-redirect/cycle family are reported as KNOWN-FINDING",
        ],
        "partial": ["self-containedness and equality with a direct build are decided per case on the real code; graph-level theorems characterise the segment's contents"],
    },
    "C06": {
        "harness": "c06",
        "props_file": "Props/C06.v",
        "run_module": "Model.Version Model.RunC06",
        "run_fn": "run_c06",
        "pinned_theorems": ["C06_resolve_version", "C06_select", "C06_select_unique", "C06_select_unique_up_to_rank", "C06_order_free",
                            "C06_order_free_perm", "C06_wf_ranks_decided", "C06_wf_nodup_decided",
                            "C06_get_for_package", "C06_excluded", "C06_not_excluded",
                            "C06_no_cutoff_no_date_filter", "C06_error_flag", "C06_cutoff_strict",
                            "C06_no_creation_date_is_old", "C06_spec_okb_correct",
                            "C06_order_free_equal_rank_refuted"],
        "rule": ("selection-function level, direct calls to the public deno_graph::packages API. (a) EVERY registry "
                 "info made of <= 3 of the versions {0.9.0, 1.0.0, 1.1.0, 2.0.0-beta.1, 2.0.0}, each yanked or not and "
                 "created never/before/at/after the cutoff (5801 infos), x 3 option sets (no date / date / date with "
                 "the package excluded by exact name or prefix) x 6 requirements (*, ^1, ~1.0, 1.1.0, >=2.0.0-0, ^3) x "
                 "existing sets x cached sets: quick = the empty set plus seeded selections (existing drawn from all "
                 "of the 5 versions, so lockfile seeds absent from the registry occur; repeated elements occur), "
                 "thorough = all 32 existing subsets x all cached subsets (+ one cached version absent from the "
                 "registry); (b) sampled infos of 4-5 of the 5 and 3-6 of a wider 9-version universe; (c) explicit "
                 "queries on a 12-version universe that contains versions differing in build metadata only: each is "
                 "answered by the real code under two different iteration orders of the same registry HashMap "
                 "(fresh RandomStates until the wanted order appears), both answers are judged by the extracted, "
                 "proved decision procedure spec_okb and for equality; (d) NewestDependencyDateOptions::"
                 "get_for_package exhaustively over 11 names x all option sets with <= 2 exclusions, <= 2 prefixes, "
                 "date on/off; (e) the free function resolve_version on explicit sequences with repeats. "
                 "Version::cmp enters as a dense rank (checked to be a total preorder), VersionReq::matches as a "
                 "matrix. non-trivial = case with at least two different outcome classes (unyanked / yanked / dated "
                 "error / plain error; cutoff in force / not; some / none)"),
        "assumptions": [
            "Version::cmp and VersionReq::matches enter the model as data computed by deno_semver on the case's versions",
            "graph-level resolution (resolve_jsr_nv, cached-manifest probe, tag rejection, lockfile seeding, used-yanked bookkeeping) is not covered yet: it needs the builder model",
            "the cutoff comparison follows the code (created < cutoff); the boundary is not reported as a violation (DESIGN.md C06)",
            "known finding F-C06a (registry versions that differ in build metadata only: the pick depends on HashMap iteration order) is reported as KNOWN-FINDING",
        ],
        "partial": ["selection function only; order independence is proved for version sets that Version::cmp separates, "
                    "the unrestricted statement is refuted (F-C06a)"],
    },
    "C16": {
        "harness": "c16",
        "props_file": "Props/C16.v",
        "run_module": "Model.Symbols Model.RunC16",
        "run_fn": "run_c16",
        "pinned_theorems": ["C16_exports_set", "C16_own_first", "C16_terminates", "C16_names_okb_correct",
                            "C16_wf_checker_sound", "C16_goto_terminates_partial", "C16_goto_sound_partial",
                            "C16_goto_results_checked",
                            "C16_dotted_namespace_refuted", "C16_import_conflict_refuted"],
        "rule": ("one case = one multi-module program analysed by the REAL RootSymbol: (1) every spec file of "
                 "/repo/tests/specs/symbols and /repo/tests/specs/graph (all script sources of the spec are roots; JSR "
                 "manifests get their checksums filled in as the spec runner does), (2) 13 hand-written programs (star "
                 "cycles, self re-export, diamond, unresolved stars, dotted/merged namespaces, go-to-definition chains and "
                 "cycles, import-equals aliases, circular import aliases), (3) generated programs of 2-6 modules "
                 "(.ts/.d.ts/.js/.mjs/.mts/.tsx, JS modules typed by @ts-self-types siblings, a JSON module, a broken "
                 "module, a redirect, missing and npm: targets): function overloads, classes with static/instance/"
                 "private/#private members, accessors, auto-accessors, index signatures, constructor overloads and "
                 "parameter properties, interfaces with call/construct/index/method/accessor signatures, type aliases, "
                 "(const) enums, nested/dotted/merged/ambient namespaces, destructuring variables, default exports of "
                 "every form, export =, export lists and aliases, import forms incl. import type / import x = require / "
                 "import A = N.B / export import, export * / export * as / export {..} from / export type * with cycles, "
                 "expando properties, declaration merging inside the groups TypeScript allows; names are drawn from an "
                 "8-name pool shared by all modules so that star re-exports collide. 20% of the generated programs are "
                 "adversarial (parseable but rejected by TypeScript: import bindings re-declared locally, incompatible "
                 "merges, several default exports). Per module, through the public API: the symbol table is dumped and "
                 "judged by the extracted proved-sound checker wf_symtabb; ModuleInfoRef::exports() (complete resolved "
                 "map with re-export paths, unresolved list) is compared with the model's exports_of computed from the "
                 "dumped own exports, `export *` specifiers, ModuleGraph::resolve_dependency answers and the "
                 "module_from_specifier table, and its name set is judged by names_okb; "
                 "go_to_definitions_or_unresolveds is called on EVERY symbol under a 5 s watchdog (programs in the input "
                 "class of F-C16c run in a child process first), every result is judged by goto_okb, and - for programs without an "
                 "`import X = A.B` declaration (about 2/3 of them) - the complete ordered result lists are compared with the "
                 "model's goto_defs. non-trivial = "
                 ">= 2 analysed modules, >= 10 symbols and >= 1 resolved star re-export; distinct = distinct abstract input"),
        "assumptions": [
            "(a) is a proof about the model of exports_and_re_exports_inner; the SymbolFiller (b) is NOT modelled: real tables are checked per explored module by the extracted, proved-sound checker (translation-validation strength)",
            "(c) find_definition_paths_internal / go_to_file_export are modelled and proved terminating and sound for the fragment without qualified names only (QualifiedTarget / resolve_qualified_name are not modelled: with them termination is false, F-C16c); for programs with qualified names termination is watched (5 s) and results are checked by the proved-sound result checker",
            "resolve_dependency and module_from_specifier enter the export model as data computed by the real crate",
            "symbol names are compared as the API reports them (Symbol::maybe_name / SymbolDecl::maybe_name); alias symbols (a non-definition declaration) must not be listed as child or member, as in tests/helpers",
            "known findings F-C16a (dotted namespace segment re-declared in its body: a symbol is its own child / listed twice), F-C16b (programs TypeScript rejects for conflicting declarations: mixed alias/definition symbols, differing declaration names) and F-C16c (circular import alias: go-to-definition overflows the stack) are reported as KNOWN-FINDING",
        ],
        "partial": ["export resolution is proved for the model; tree shape is decided per explored output by a proved-sound checker (the SymbolFiller is not modelled); go-to-definition is proved terminating/sound only for the fragment without qualified names (C16_goto_*_partial), the unrestricted termination claim is false (F-C16c)"],
    },
}
