"""Per-property configuration of tools/check."""

PROPS = {
    "C15": {
        "harness": "c15",
        "props_file": "Props/C15.v",
        "run_module": "Model.Graph Model.Walk Model.RunC15",
        "run_fn": "run_c15",
        "pinned_theorems": ["C15_terminates", "C15_once", "C15_exact", "C15_entries", "C15_errors"],
        "rule": ("worlds of 2-10 modules generated from one SplitMix64 state (JS/TS/JSX/TSX/d.ts/JSON, "
                 "static/dynamic/type-only/@deno-types/reference/self-types/x-typescript-types imports, "
                 "file/http/https, redirects, missing, erroring, external, lockfile-seeded and "
                 "caller-inserted redirects incl. cycles) are built with the real builder; each graph "
                 "is walked with 6 random (kind, follow_dynamic, check_js incl. custom, "
                 "prefer_fast_check, roots, skip policy) queries by the real iterator and by the "
                 "extracted model; yielded (specifier, entry kind) multisets and error multisets must "
                 "be equal. non-trivial = graph with >= 2 modules and >= 6 yields over its queries; "
                 "distinct = distinct abstract (graph, queries) input"),
        "assumptions": [
            "roots are given as a set (the property quantifies over root subsets)",
            "URL/scheme/media-type facts enter the model as data computed by the real crates",
        ],
    },
    "C02": {
        "harness": "c02",
        "props_file": "Props/C02.v",
        "run_module": "Model.Graph Model.Walk Model.RunC15 Model.RunC02",
        "run_fn": "run_c02",
        "pinned_theorems": ["C02_validate_iff", "C02_valid_iff", "C02_valid_edges",
                            "C02_reachable_failure_not_skipped_outside_known_class", "C02_error_names",
                            "C02_failsb_correct", "C02_follow_dynamic_missing_root_refuted"],
        "rule": ("same real graphs as C15 (faults: missing, load error, parse error, unsupported media, bad "
                 "resolution, https->http, literal file:// from remote, behind static/dynamic/code/type edges "
                 "and redirect chains); 8 validations per graph (the first is ModuleGraph::valid() itself, the "
                 "others random kind x follow_dynamic x check_js x prefer_fast_check x root subsets). The real "
                 "verdict is judged by the extracted, proved-correct decision procedure (failsb) and compared "
                 "with the model's verdict. non-trivial = graph with >= 2 modules where some but not all "
                 "validations fail"),
        "assumptions": [
            "roots are given as a set",
            "known finding F-C02a (follow_dynamic drops Missing slot errors that no dependency reports) is reported as KNOWN-FINDING",
        ],
        "partial": ["for follow_dynamic = true only C02_reachable_failure_not_skipped_outside_known_class is proved; the iff is refuted (F-C02a)"],
    },
    "C14": {
        "harness": "c14",
        "props_file": "Props/C14.v",
        "run_module": "Model.Graph Model.Walk Model.RunC15 Model.RunC02 Model.RunC14",
        "run_fn": "run_c14",
        "pinned_theorems": ["C14_resolve_terminates", "C14_resolve_reaches_end", "C14_idempotent", "C14_walk_end",
                            "C14_agree", "C14_specifiers_one_hop", "C14_prefer_types", "C14_prefer_code",
                            "C14_cycle_refuted", "C14_ten_hops_refuted", "C14_specifiers_two_hops_refuted",
                            "C14_shadow_refuted"],
        "rule": ("worlds built around 1-3 redirect chains of length 1..13 (quick) / 1..26 (thorough), made of loader "
                 "redirects and/or lockfile-seeded redirects, ending at a module, a missing module, a load error, or "
                 "cycling back into the chain; loader max_redirects in {3,10,25}; modules import chain heads "
                 "statically/dynamically/type-only and via @deno-types/@ts-self-types. For EVERY specifier known "
                 "to the graph the real resolve/get/contains/try_get/try_get_prefer_types and the end of the REAL "
                 "walk from it are compared with the model's; specifiers() and resolve_dependency(+-types) of every "
                 "dependency likewise; the extracted decision procedure judges the real lookups against the real "
                 "walk end. non-trivial = graph with >= 2 redirects"),
        "assumptions": [
            "known findings F-C14a (cycle), F-C14b (>9 hops), F-C14c (specifiers() one hop only), F-C14d (entry at a redirect source) are reported as KNOWN-FINDING; the model/implementation comparison of all lookup values is NOT suspended for them",
        ],
        "partial": ["agreement with the walk is proved for chains of <= 9 hops without shadowing; the unrestricted statement is refuted (4 witnesses)"],
    },
    "C13": {
        "harness": "c13",
        "props_file": "Props/C13.v",
        "run_module": "Model.Codec Model.RunC13",
        "run_fn": "run_c13",
        "pinned_theorems": ["C13_roundtrip", "C13_roundtrip_exact", "C13_roundtrip_unordered", "C13_enc_injective",
                            "C13_enc_injective_unordered", "C13_v1_upgrade_keys",
                            "C13_v1_upgrade", "C13_v1_upgrade_general", "C13_v1_no_pragma", "C13_v1_module",
                            "C13_v1_untouched", "C13_roundtrip_holdsb_correct", "C13_v1_holdsb_correct",
                            "C13_v1_model_holds"],
        "rule": ("part (a) of C13 only (codec + moduleGraph1 upgrade). Cases, in this order: the exhaustive "
                 "enumeration of the discrete shapes (683: every static/dynamic kind x optional field presence x "
                 "attribute shape x argument shape, every reference/jsdoc variant x resolution mode, all 256 "
                 "subsets of non-empty ModuleInfo fields); the ModuleInfo of every module source embedded in "
                 "/repo/tests/specs/**/*.txt analysed by the real ParserModuleAnalyzer; every moduleGraph1/2 entry "
                 "of the corpus manifests; 138 hand-written decoder corner cases; then generated cases (quick 16k, "
                 "thorough 200k; 40% random ModuleInfo values with every field independently empty/non-empty and "
                 "strings incl. empty, quotes, NUL, non-BMP; 30% structurally mutated or random JSON through the "
                 "decoder; 20% moduleGraph1 entries with generated leadingComments incl. quote-less, case-folded, "
                 "non-ASCII and malformed ones; 10% moduleGraph2/1 selection in JsrPackageVersionInfo::module_info). "
                 "Compared: model_enc(mi) = real to_value(mi) as unordered JSON; model_dec(real_enc(mi)) = mi; "
                 "model_dec(j) = real from_value(j) for mutated j; model upgrade(j) = real module_graph_1_to_2(j) and "
                 "model decode = real module_info(); the real from_value/from_str round trips (also with permuted "
                 "keys) are checked directly; two proved decision procedures judge the real outputs. "
                 "non-trivial = info with a non-empty field / an effective mutation / an entry with leadingComments"),
        "assumptions": [
            "JSON at serde_json::Value level (text layer trusted); numbers are u64 below 2^62; other numbers are outside the modelled domain",
            "find_deno_types (regex) enters the model as a table computed by the real function; the theorems hold for every such function",
            "part (b) of C13 (manifest shortcut equals parsing) is not covered by this check",
            "real from_value(model_enc(mi)) = mi is obtained from model_enc(mi) = real to_value(mi) as unordered values (compared on every case) and the real round trip with permuted object keys (checked directly on every case)",
            "the range attached to an upgraded types specifier is the one module_graph_1_to_2 computes (comment start + 2 + regex byte offsets -1/+1, unbounded arithmetic in the model); the property text does not constrain it. Observed on the real code: it differs from what the current analyser computes for the same source when the pragma is quote-less (14..24 instead of 15..23 for `// @deno-types=./a.d.ts`) or contains / is preceded by non-ASCII text (byte instead of character offsets), and `character` = usize::MAX in a manifest makes module_graph_1_to_2 overflow (panic with overflow checks)",
        ],
        "partial": ["part (b) of C13 (graph built from embedded module info equals graph built by parsing) is not modelled yet; only the codec and the moduleGraph1 upgrade are proved and tied to the code"],
    },
}
