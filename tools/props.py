"""Per-property configuration of tools/check."""

PROPS = {
    "C15": {
        "harness": "c15",
        "props_file": "Props/C15.v",
        "run_module": "Model.Graph Model.Walk Model.RunC15",
        "run_fn": "run_c15",
        "pinned_theorems": ["C15_terminates", "C15_once", "C15_exact", "C15_entries", "C15_errors"],
        "rule": ("worlds of 2-10 modules generated from one SplitMix64 state (JS/TS/JSX/TSX/d.ts/JSON, "
                 "static/dynamic/type-only/@deno-types/reference/self-types/x-typescript-types imports, "
                 "file/http/https, redirects, missing, erroring, external, lockfile-seeded and "
                 "caller-inserted redirects incl. cycles) are built with the real builder; each graph "
                 "is walked with 6 random (kind, follow_dynamic, check_js incl. custom, "
                 "prefer_fast_check, roots, skip policy) queries by the real iterator and by the "
                 "extracted model; yielded (specifier, entry kind) multisets and error multisets must "
                 "be equal. non-trivial = graph with >= 2 modules and >= 6 yields over its queries; "
                 "distinct = distinct abstract (graph, queries) input"),
        "assumptions": [
            "roots are given as a set (the property quantifies over root subsets)",
            "URL/scheme/media-type facts enter the model as data computed by the real crates",
        ],
    },
    "C02": {
        "harness": "c02",
        "props_file": "Props/C02.v",
        "run_module": "Model.Graph Model.Walk Model.RunC15 Model.RunC02",
        "run_fn": "run_c02",
        "pinned_theorems": ["C02_validate_iff", "C02_valid_iff", "C02_valid_edges",
                            "C02_reachable_failure_not_skipped_outside_known_class", "C02_error_names",
                            "C02_failsb_correct", "C02_follow_dynamic_missing_root_refuted"],
        "rule": ("same real graphs as C15 (faults: missing, load error, parse error, unsupported media, bad "
                 "resolution, https->http, literal file:// from remote, behind static/dynamic/code/type edges "
                 "and redirect chains); 8 validations per graph (the first is ModuleGraph::valid() itself, the "
                 "others random kind x follow_dynamic x check_js x prefer_fast_check x root subsets). The real "
                 "verdict is judged by the extracted, proved-correct decision procedure (failsb) and compared "
                 "with the model's verdict. non-trivial = graph with >= 2 modules where some but not all "
                 "validations fail"),
        "assumptions": [
            "roots are given as a set",
            "known finding F-C02a (follow_dynamic drops Missing slot errors that no dependency reports) is reported as KNOWN-FINDING",
        ],
        "partial": ["for follow_dynamic = true only C02_reachable_failure_not_skipped_outside_known_class is proved; the iff is refuted (F-C02a)"],
    },
    "C14": {
        "harness": "c14",
        "props_file": "Props/C14.v",
        "run_module": "Model.Graph Model.Walk Model.RunC15 Model.RunC02 Model.RunC14",
        "run_fn": "run_c14",
        "pinned_theorems": ["C14_resolve_terminates", "C14_resolve_reaches_end", "C14_idempotent", "C14_walk_end",
                            "C14_agree", "C14_specifiers_one_hop", "C14_prefer_types", "C14_prefer_code",
                            "C14_cycle_refuted", "C14_ten_hops_refuted", "C14_specifiers_two_hops_refuted",
                            "C14_shadow_refuted"],
        "rule": ("worlds built around 1-3 redirect chains of length 1..13 (quick) / 1..26 (thorough), made of loader "
                 "redirects and/or lockfile-seeded redirects, ending at a module, a missing module, a load error, or "
                 "cycling back into the chain; loader max_redirects in {3,10,25}; modules import chain heads "
                 "statically/dynamically/type-only and via @deno-types/@ts-self-types. For EVERY specifier known "
                 "to the graph the real resolve/get/contains/try_get/try_get_prefer_types and the end of the REAL "
                 "walk from it are compared with the model's; specifiers() and resolve_dependency(+-types) of every "
                 "dependency likewise; the extracted decision procedure judges the real lookups against the real "
                 "walk end. non-trivial = graph with >= 2 redirects"),
        "assumptions": [
            "known findings F-C14a (cycle), F-C14b (>9 hops), F-C14c (specifiers() one hop only), F-C14d (entry at a redirect source) are reported as KNOWN-FINDING; the model/implementation comparison of all lookup values is NOT suspended for them",
        ],
        "partial": ["agreement with the walk is proved for chains of <= 9 hops without shadowing; the unrestricted statement is refuted (4 witnesses)"],
    },
    "C20": {
        "harness": "c20",
        "props_file": "Props/C20.v",
        "run_module": "Model.Text Model.RunC20",
        "run_fn": "run_c20",
        "pinned_theorems": ["C20_original_bytes", "C20_text_is_decoding", "C20_unchanged_iff", "C20_bom_only_iff",
                            "C20_changed_iff", "C20_size", "C20_undecodable", "C20_text_valid",
                            "C20_charset_header_wins", "C20_charset_remote_default", "C20_charset_file_sniff",
                            "C20_valid_utf8_iff", "C20_utf8_roundtrip", "C20_utf16_roundtrip",
                            "C20_holdsb_correct", "C20_model_holds",
                            "C20_jsr_fill_holds_outside_known_class", "C20_jsr_fill_original_bytes",
                            "C20_jsr_fill_ignores_header_refuted", "C20_new_unknown"],
        "rule": ("one case = one byte string and one media (ts, js, json; an enumerated string gives three cases) "
                 "served to the REAL code under every combination of content-type header "
                 "x scheme (file:, https:) x route (0: public parse_module; 1: real graph build "
                 "whose loader serves bytes + headers, JSON via `with {type: json}`; 2 (https): real build of a JSR "
                 "package whose version manifest carries the module info, so that the content is filled in afterwards; "
                 "3 (https, not in the base enumeration): the same package served from the cache), 12-348 combinations per case "
                 "(coverage.distribution.combinations = total). Byte strings: ALL strings of length <= 3 (quick) / "
                 "<= 4 (thorough) over {00,0A,41,7F,80,BF,C2,E0,ED,EF,BB,F0,F4,FE,FF} with 11 header shapes (none, "
                 "media only, utf-8, UTF-8, utf8, utf-16le, utf-16be, windows-1252, bogus, charset= in 2nd/3rd "
                 "position with spaces); ALL strings of length <= 2 (quick) / <= 3 (thorough) over that alphabet + "
                 "{D8,DC,9F,A0,8F,90,1B} with 58 header shapes for length <= 1 and a rotating 28 of them above (every UTF-8/UTF-16 label of encoding_rs, quoted, "
                 "empty, upper-case parameter name, Unicode white space, legacy encodings, replacement, "
                 "iso-2022-jp, unsupported media type); then 6000 (quick) / 90000 (thorough) structured or "
                 "random strings from one SplitMix64 state (valid UTF-8 with/without BOM, double BOM, UTF-16LE/BE "
                 "with right/wrong/no BOM, lone surrogates, odd length, overlong/surrogate/out-of-range/truncated "
                 "UTF-8, gb18030 BOM, ESC sequences, truncations) with up to 6 random header shapes each. Compared per "
                 "combination: header charset seen by the real resolver, error-vs-module, stored text bytes, "
                 "decoded kind, try_get_original_bytes(), size(), serialised size; the real observation is "
                 "also judged by the extracted decision procedure (C20_holdsb_correct). non-trivial = non-empty "
                 "byte string whose combinations show >= 2 different (outcome, kind) pairs; distinct = distinct "
                 "model input"),
        "assumptions": [
            "labels other than the UTF-8/UTF-16LE/UTF-16BE labels are answered by encoding_rs itself (oracle data: supported?, borrow rule, decoded scalars); the model adds BOM stripping, kind, original bytes, size on top",
            "media type resolution (extension / content-type media part) is data computed by the real crate",
            "module sources that do not parse are turned into dependency-free modules by a wrapping ModuleAnalyzer so that their stored text can be observed; texts that still start with U+FEFF are not handed to deno_ast (it panics on them in debug builds)",
            "serialised size equals the text length below 4 GiB (u32 truncation is modelled, larger texts are not generated)",
            "known finding F-C20a (the JSR deferred content fill ignores the charset of the response's content-type header) is reported as KNOWN-FINDING; the comparison of all observed values with the model is NOT suspended for it",
        ],
        "partial": ["on the JSR deferred content-fill route the text-is-decoding clause is proved only when the response header names no charset or a UTF-8 label (C20_jsr_fill_holds_outside_known_class); the unrestricted statement is refuted (C20_jsr_fill_ignores_header_refuted, F-C20a); the original-bytes and size clauses hold on every route"],
    },
}
