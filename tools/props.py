"""Per-property configuration of tools/check."""

PROPS = {
    "C15": {
        "harness": "c15",
        "props_file": "Props/C15.v",
        "run_module": "Model.Graph Model.Walk Model.RunC15",
        "run_fn": "run_c15",
        "pinned_theorems": ["C15_terminates", "C15_once", "C15_exact", "C15_entries", "C15_errors"],
        "rule": ("worlds of 2-10 modules generated from one SplitMix64 state (JS/TS/JSX/TSX/d.ts/JSON, "
                 "static/dynamic/type-only/@deno-types/reference/self-types/x-typescript-types imports, "
                 "file/http/https, redirects, missing, erroring, external, lockfile-seeded and "
                 "caller-inserted redirects incl. cycles) are built with the real builder; each graph "
                 "is walked with 6 random (kind, follow_dynamic, check_js incl. custom, "
                 "prefer_fast_check, roots, skip policy) queries by the real iterator and by the "
                 "extracted model; yielded (specifier, entry kind) multisets and error multisets must "
                 "be equal. non-trivial = graph with >= 2 modules and >= 6 yields over its queries; "
                 "distinct = distinct abstract (graph, queries) input"),
        "assumptions": [
            "roots are given as a set (the property quantifies over root subsets)",
            "URL/scheme/media-type facts enter the model as data computed by the real crates",
        ],
    },
    "C02": {
        "harness": "c02",
        "props_file": "Props/C02.v",
        "run_module": "Model.Graph Model.Walk Model.RunC15 Model.RunC02",
        "run_fn": "run_c02",
        "pinned_theorems": ["C02_validate_iff", "C02_valid_iff", "C02_valid_edges",
                            "C02_reachable_failure_not_skipped_outside_known_class", "C02_error_names",
                            "C02_failsb_correct", "C02_follow_dynamic_missing_root_refuted"],
        "rule": ("same real graphs as C15 (faults: missing, load error, parse error, unsupported media, bad "
                 "resolution, https->http, literal file:// from remote, behind static/dynamic/code/type edges "
                 "and redirect chains); 8 validations per graph (the first is ModuleGraph::valid() itself, the "
                 "others random kind x follow_dynamic x check_js x prefer_fast_check x root subsets). The real "
                 "verdict is judged by the extracted, proved-correct decision procedure (failsb) and compared "
                 "with the model's verdict. non-trivial = graph with >= 2 modules where some but not all "
                 "validations fail"),
        "assumptions": [
            "roots are given as a set",
            "known finding F-C02a (follow_dynamic drops Missing slot errors that no dependency reports) is reported as KNOWN-FINDING",
        ],
        "partial": ["for follow_dynamic = true only C02_reachable_failure_not_skipped_outside_known_class is proved; the iff is refuted (F-C02a)"],
    },
    "C14": {
        "harness": "c14",
        "props_file": "Props/C14.v",
        "run_module": "Model.Graph Model.Walk Model.RunC15 Model.RunC02 Model.RunC14",
        "run_fn": "run_c14",
        "pinned_theorems": ["C14_resolve_terminates", "C14_resolve_reaches_end", "C14_idempotent", "C14_walk_end",
                            "C14_agree", "C14_specifiers_one_hop", "C14_prefer_types", "C14_prefer_code",
                            "C14_cycle_refuted", "C14_ten_hops_refuted", "C14_specifiers_two_hops_refuted",
                            "C14_shadow_refuted"],
        "rule": ("worlds built around 1-3 redirect chains of length 1..13 (quick) / 1..26 (thorough), made of loader "
                 "redirects and/or lockfile-seeded redirects, ending at a module, a missing module, a load error, or "
                 "cycling back into the chain; loader max_redirects in {3,10,25}; modules import chain heads "
                 "statically/dynamically/type-only and via @deno-types/@ts-self-types. For EVERY specifier known "
                 "to the graph the real resolve/get/contains/try_get/try_get_prefer_types and the end of the REAL "
                 "walk from it are compared with the model's; specifiers() and resolve_dependency(+-types) of every "
                 "dependency likewise; the extracted decision procedure judges the real lookups against the real "
                 "walk end. non-trivial = graph with >= 2 redirects"),
        "assumptions": [
            "known findings F-C14a (cycle), F-C14b (>9 hops), F-C14c (specifiers() one hop only), F-C14d (entry at a redirect source) are reported as KNOWN-FINDING; the model/implementation comparison of all lookup values is NOT suspended for them",
        ],
        "partial": ["agreement with the walk is proved for chains of <= 9 hops without shadowing; the unrestricted statement is refuted (4 witnesses)"],
    },
    "C17": {
        "harness": "c17",
        "props_file": "Props/C17.v",
        "run_module": "Model.Graph Model.Walk Model.RunC15 Model.RunC02 Model.RunC14 Model.Prune Model.RunC17",
        "run_fn": "run_c17",
        "pinned_theorems": ["C17_terminates", "C17_entries", "C17_code_view_unchanged", "C17_no_types_left",
                            "C17_code_only_noop"],
        "rule": ("worlds of 2-10 modules satisfying the same-attribute proviso (the `type` attribute used for a "
                 "target is a function of the target; roots/configured imports/redirect sources are requested "
                 "without attribute), default build options; each world is built three ways on the REAL code: "
                 "all kinds, all kinds + prune_types, code only (without configured type imports). Checked: real "
                 "prune result == model prune of the abstracted all-kinds graph (full structural equality), "
                 "nothing type-related left in the real pruned graph, and observational code-equality of the "
                 "real pruned graph with the real code-only build (extracted obs_code_eqb: entries with module "
                 "kind/media/error kind, redirects, code edges as sets with targets and dynamic flags, valid() "
                 "verdict). non-trivial = all-kinds graph with >= 3 entries of which pruning removes at least one"),
        "assumptions": [
            "default build options (with skip_dynamic_deps a dynamically imported module loaded through a type edge survives pruning but is absent from the code-only build: recorded as an observation in DESIGN.md)",
            "known findings F-C17a (context-dependent acceptance of attribute-less JSON) and F-C17b (position of the TooManyRedirects error on a redirect cycle) are reported as KNOWN-FINDING",
        ],
        "partial": ["the build-level equality prune(build All) = build CodeOnly is decided on the real code per case; its theorem over a builder model is not yet proved"],
    },
    "C18": {
        "harness": "c18",
        "props_file": "Props/C18.v",
        "run_module": "Model.Graph Model.Walk Model.RunC15 Model.RunC02 Model.RunC14 Model.Prune Model.RunC17 Model.RunC18",
        "run_fn": "run_c18",
        "pinned_theorems": ["C18_terminates", "C18_clone", "C18_entries", "C18_self_contained_correct",
                            "C18_typesonly_refuted"],
        "rule": ("same proviso worlds as C17, graph kind in {All, CodeOnly, TypesOnly} (configured type imports only "
                 "for kinds that include types), 1-2 segment roots among the graph's modules (12%: the original "
                 "roots, exercising the clone shortcut). Checked on the REAL code: real segment == model segment "
                 "of the abstracted graph (full structural equality); every dependency of every module of the real "
                 "segment resolves (with and without type preference) and try_gets as in the real original, and "
                 "three validations agree (extracted self_contained, proved equivalent to the declarative "
                 "statement); entries+redirects of the real segment == those of a real direct build of the segment "
                 "roots. non-trivial = segment roots not all original roots, segment has >= 2 entries and fewer "
                 "than the original"),
        "assumptions": [
            "known findings F-C18a (types-only segment drops a JS module that has a types dependency), F-C18b (context-dependent acceptance of attribute-less JSON, same cause as F-C17a) and the C14 entry-at-redirect/cycle family are reported as KNOWN-FINDING",
        ],
        "partial": ["self-containedness and equality with a direct build are decided per case on the real code; graph-level theorems characterise the segment's contents"],
    },
    "C06": {
        "harness": "c06",
        "props_file": "Props/C06.v",
        "run_module": "Model.Version Model.RunC06",
        "run_fn": "run_c06",
        "pinned_theorems": ["C06_resolve_version", "C06_select", "C06_select_unique", "C06_select_unique_up_to_rank", "C06_order_free",
                            "C06_order_free_perm", "C06_wf_ranks_decided", "C06_wf_nodup_decided",
                            "C06_get_for_package", "C06_excluded", "C06_not_excluded",
                            "C06_no_cutoff_no_date_filter", "C06_error_flag", "C06_cutoff_strict",
                            "C06_no_creation_date_is_old", "C06_spec_okb_correct",
                            "C06_order_free_equal_rank_refuted"],
        "rule": ("selection-function level, direct calls to the public deno_graph::packages API. (a) EVERY registry "
                 "info made of <= 3 of the versions {0.9.0, 1.0.0, 1.1.0, 2.0.0-beta.1, 2.0.0}, each yanked or not and "
                 "created never/before/at/after the cutoff (5801 infos), x 3 option sets (no date / date / date with "
                 "the package excluded by exact name or prefix) x 6 requirements (*, ^1, ~1.0, 1.1.0, >=2.0.0-0, ^3) x "
                 "existing sets x cached sets: quick = the empty set plus seeded selections (existing drawn from all "
                 "of the 5 versions, so lockfile seeds absent from the registry occur; repeated elements occur), "
                 "thorough = all 32 existing subsets x all cached subsets (+ one cached version absent from the "
                 "registry); (b) sampled infos of 4-5 of the 5 and 3-6 of a wider 9-version universe; (c) explicit "
                 "queries on a 12-version universe that contains versions differing in build metadata only: each is "
                 "answered by the real code under two different iteration orders of the same registry HashMap "
                 "(fresh RandomStates until the wanted order appears), both answers are judged by the extracted, "
                 "proved decision procedure spec_okb and for equality; (d) NewestDependencyDateOptions::"
                 "get_for_package exhaustively over 11 names x all option sets with <= 2 exclusions, <= 2 prefixes, "
                 "date on/off; (e) the free function resolve_version on explicit sequences with repeats. "
                 "Version::cmp enters as a dense rank (checked to be a total preorder), VersionReq::matches as a "
                 "matrix. non-trivial = case with at least two different outcome classes (unyanked / yanked / dated "
                 "error / plain error; cutoff in force / not; some / none)"),
        "assumptions": [
            "Version::cmp and VersionReq::matches enter the model as data computed by deno_semver on the case's versions",
            "graph-level resolution (resolve_jsr_nv, cached-manifest probe, tag rejection, lockfile seeding, used-yanked bookkeeping) is not covered yet: it needs the builder model",
            "the cutoff comparison follows the code (created < cutoff); the boundary is not reported as a violation (DESIGN.md C06)",
            "known finding F-C06a (registry versions that differ in build metadata only: the pick depends on HashMap iteration order) is reported as KNOWN-FINDING",
        ],
        "partial": ["selection function only; order independence is proved for version sets that Version::cmp separates, "
                    "the unrestricted statement is refuted (F-C06a)"],
    },
    "C01": {
        "harness": "c01",
        "props_file": "Props/C01.v",
        "run_module": "Model.Graph Model.Walk Model.RunC15 Model.RunC02 Model.RunC14 Model.Prune Model.RunC17 Model.Builder Model.RunC01",
        "run_fn": "run_c01",
        "pinned_theorems": ["C01_single_entry_step", "C01_recorded_dep", "C01_nothing_pending"],
        "rule": ("proviso worlds of 2-11 modules (JS/TS/JSX/TSX/d.ts/mjs/mts/JSON by extension or content-type header; "
                 "static/named/type-only/dynamic/export-star/export-type/@deno-types/reference types+path/self-types/"
                 "x-typescript-types/JSDoc/import-type imports; json/text/bytes/bogus attributes as a function of the "
                 "target; file/http/https/node:/malformed jsr:/npm:; redirects incl. chains and loops, missing, erroring, "
                 "external, unparsable entries), graph kind x is_dynamic x skip_dynamic_deps x unstable bytes/text x "
                 "max_redirects in {0,2,10} x configured imports. Each module's declaration is obtained from the REAL "
                 "parse_module for the graph kind; the real builder's graph (entries with structured errors and "
                 "referrers, redirects, per-module dependencies with code/type targets, attributes, dynamic flags, "
                 "external/asset flags, configured imports, has_node, multiset of loader calls) must equal the "
                 "extracted model's. non-trivial = >= 3 entries and (an error, a redirect or a dynamic dependency)"),
        "assumptions": [
            "stage B1: no JSR/npm resolution, no source-phase imports, no source maps, no locker, utf-8 sources",
            "the loader is a function of its arguments",
        ],
        "partial": ["the two-sided closure theorem C01_closure is not yet proved; closure is checked per case (model = real builder; C15/C02 on the same real graphs)"],
    },
    "C03": {
        "harness": "c03",
        "props_file": "Props/C03.v",
        "run_module": "Model.Graph Model.Walk Model.RunC15 Model.RunC02 Model.RunC14 Model.Prune Model.RunC17 Model.Builder Model.RunC01",
        "run_fn": "run_c01",
        "level": "proof",
        "pinned_theorems": ["C03_no_pending", "C03_step_invariant", "C03_error_entry"],
        "rule": ("fault enumeration: EVERY assignment of a response kind {module, missing, load error, external, "
                 "unparsable, self-redirect, redirect to each other specifier} to each of the 4 specifiers of a base "
                 "world (9^4 = 6561 assignments; quick: 1 base world, thorough: 3) x graph kind, plus 2000 (quick) "
                 "sampled C01 worlds. Per case on the REAL code: build under catch_unwind, serialised graph free of "
                 "INTERNAL ERROR, no pending entry, error entries stored under their own specifier with a referrer "
                 "unless reached from a root, fault locality (every module that does not transitively depend on a "
                 "faulted specifier equals its entry in the fault-free build), and equality with the builder model's "
                 "graph. non-trivial = at least one error entry and one module"),
        "assumptions": [
            "stage B1 (see C01); JSR/npm registry faults, checksum faults and undecodable bytes are not enumerated yet",
            "fixed: F-C03b (self-redirect left a pending entry) was found by this machinery and repaired in /repo commit 76358fe",
        ],
        "partial": ["termination of the build loop is not proved (fuel; checked per case)", "registry/npm/checksum faults not covered"],
    },
    "C04": {
        "harness": "c04",
        "props_file": "Props/C04.v",
        "run_module": "Model.Graph Model.Walk Model.RunC15 Model.RunC02 Model.RunC14 Model.Prune Model.RunC17 Model.Builder Model.RunC01",
        "run_fn": "run_c01",
        "pinned_theorems": ["C04_schedule_independent", "C04_scheduled_equals_sequential", "C04_poll_delivers"],
        "rule": ("C01 worlds biased towards several dynamic branches sharing a failing descendant; each world is built "
                 "on the REAL code once with an immediately-ready loader, 6 (quick) / 25 (thorough) more times in the "
                 "same process (fresh hasher state), and under 8 / 40 random completion schedules: the loader returns "
                 "gated futures, the build future is polled by hand and at each suspension one outstanding load chosen "
                 "by the schedule completes. Serialised graph + every error with its referrer range must be identical "
                 "across all builds, and the reference build must equal the (schedule-free) model's graph. "
                 "non-trivial = at least 3 loads simultaneously outstanding"),
        "assumptions": [
            "the loader is a function of its arguments (a loader whose answers drift between calls makes 'the same sources' meaningless)",
            "single-threaded futures: deno_unsync's spawn is replaced by an inline executor",
            "fixed: F-C04a (HashMap iteration order of dynamic branches/deferred loads decided error referrers) repaired in /repo commit 7535c3a",
        ],
        "partial": ["JSR content-load queue (FuturesUnordered) and metadata-store futures are not in the scheduler model"],
    },
    "C19": {
        "harness": "c19",
        "props_file": "Props/C19.v",
        "run_module": "Model.Graph Model.Walk Model.RunC15 Model.RunC02 Model.RunC14 Model.Prune Model.RunC17 Model.Builder Model.RunC01 Model.RunC19",
        "run_fn": "run_c19",
        "pinned_theorems": ["C19_known_roots_identity", "C19_incremental_no_pending", "C19_root_context_refuted"],
        "rule": ("histories on C01 worlds (default dynamic options, 2-4 plain roots): 50% an ordered partition of the "
                 "roots into 2-3 successive builds vs. all roots at once; 10% a rebuild with the same roots vs. the "
                 "graph before it; 40% 1-2 source edits (add/remove a dependency, module disappears, module becomes "
                 "unparsable) of modules that are entries of the graph, reload of the edited specifiers, vs. a "
                 "from-scratch build of the new sources. All histories run on the REAL code; the final real graph must "
                 "equal the model's (which executes the same history) and is judged against the alternative real "
                 "graph by the extracted judge (error referrers blanked: which importer is recorded legitimately "
                 "depends on request order). non-trivial = final graph with >= 3 entries"),
        "assumptions": [
            "reloaded specifiers are plain (attribute-less) targets: reload always requests a specifier as a root without attribute",
            "after a reload, entries outside the newly reachable set must be unchanged unless they are the reloaded specifiers themselves or new",
            "known findings F-C19a, F-C19b are reported as KNOWN-FINDING",
        ],
        "partial": ["convergence theorems over the model are not yet proved; decided per history on the real code"],
    },
    "C13": {
        "harness": "c13",
        "props_file": "Props/C13.v",
        "run_module": "Model.Codec Model.RunC13",
        "run_fn": "run_c13",
        "pinned_theorems": ["C13_roundtrip", "C13_roundtrip_exact", "C13_roundtrip_unordered", "C13_enc_injective",
                            "C13_enc_injective_unordered", "C13_v1_upgrade_keys",
                            "C13_v1_upgrade", "C13_v1_upgrade_general", "C13_v1_no_pragma", "C13_v1_module",
                            "C13_v1_untouched", "C13_roundtrip_holdsb_correct", "C13_v1_holdsb_correct",
                            "C13_v1_model_holds"],
        "rule": ("part (a) of C13 only (codec + moduleGraph1 upgrade). Cases, in this order: the exhaustive "
                 "enumeration of the discrete shapes (683: every static/dynamic kind x optional field presence x "
                 "attribute shape x argument shape, every reference/jsdoc variant x resolution mode, all 256 "
                 "subsets of non-empty ModuleInfo fields); the ModuleInfo of every module source embedded in "
                 "/repo/tests/specs/**/*.txt analysed by the real ParserModuleAnalyzer; every moduleGraph1/2 entry "
                 "of the corpus manifests; 138 hand-written decoder corner cases; then generated cases (quick 16k, "
                 "thorough 200k; 40% random ModuleInfo values with every field independently empty/non-empty and "
                 "strings incl. empty, quotes, NUL, non-BMP; 30% structurally mutated or random JSON through the "
                 "decoder; 20% moduleGraph1 entries with generated leadingComments incl. quote-less, case-folded, "
                 "non-ASCII and malformed ones; 10% moduleGraph2/1 selection in JsrPackageVersionInfo::module_info). "
                 "Compared: model_enc(mi) = real to_value(mi) as unordered JSON; model_dec(real_enc(mi)) = mi; "
                 "model_dec(j) = real from_value(j) for mutated j; model upgrade(j) = real module_graph_1_to_2(j) and "
                 "model decode = real module_info(); the real from_value/from_str round trips (also with permuted "
                 "keys) are checked directly; two proved decision procedures judge the real outputs. "
                 "non-trivial = info with a non-empty field / an effective mutation / an entry with leadingComments"),
        "assumptions": [
            "JSON at serde_json::Value level (text layer trusted); numbers are u64 below 2^62; other numbers are outside the modelled domain",
            "find_deno_types (regex) enters the model as a table computed by the real function; the theorems hold for every such function",
            "part (b) of C13 (manifest shortcut equals parsing) is not covered by this check",
            "real from_value(model_enc(mi)) = mi is obtained from model_enc(mi) = real to_value(mi) as unordered values (compared on every case) and the real round trip with permuted object keys (checked directly on every case)",
            "the range attached to an upgraded types specifier is the one module_graph_1_to_2 computes (comment start + 2 + regex byte offsets -1/+1, unbounded arithmetic in the model); the property text does not constrain it. Observed on the real code: it differs from what the current analyser computes for the same source when the pragma is quote-less (14..24 instead of 15..23 for `// @deno-types=./a.d.ts`) or contains / is preceded by non-ASCII text (byte instead of character offsets), and `character` = usize::MAX in a manifest makes module_graph_1_to_2 overflow (panic with overflow checks)",
        ],
        "partial": ["part (b) of C13 (graph built from embedded module info equals graph built by parsing) is not modelled yet; only the codec and the moduleGraph1 upgrade are proved and tied to the code"],
    },
    "C20": {
        "harness": "c20",
        "props_file": "Props/C20.v",
        "run_module": "Model.Text Model.RunC20",
        "run_fn": "run_c20",
        "pinned_theorems": ["C20_original_bytes", "C20_text_is_decoding", "C20_unchanged_iff", "C20_bom_only_iff",
                            "C20_changed_iff", "C20_size", "C20_undecodable", "C20_text_valid",
                            "C20_charset_header_wins", "C20_charset_remote_default", "C20_charset_file_sniff",
                            "C20_valid_utf8_iff", "C20_utf8_roundtrip", "C20_utf16_roundtrip",
                            "C20_holdsb_correct", "C20_model_holds",
                            "C20_jsr_fill_holds_outside_known_class", "C20_jsr_fill_original_bytes",
                            "C20_jsr_fill_ignores_header_refuted", "C20_new_unknown"],
        "rule": ("one case = one byte string and one media (ts, js, json; an enumerated string gives three cases) "
                 "served to the REAL code under every combination of content-type header "
                 "x scheme (file:, https:) x route (0: public parse_module; 1: real graph build "
                 "whose loader serves bytes + headers, JSON via `with {type: json}`; 2 (https): real build of a JSR "
                 "package whose version manifest carries the module info, so that the content is filled in afterwards; "
                 "3 (https, not in the base enumeration): the same package served from the cache), 12-348 combinations per case "
                 "(coverage.distribution.combinations = total). Byte strings: ALL strings of length <= 3 (quick) / "
                 "<= 4 (thorough) over {00,0A,41,7F,80,BF,C2,E0,ED,EF,BB,F0,F4,FE,FF} with 11 header shapes (none, "
                 "media only, utf-8, UTF-8, utf8, utf-16le, utf-16be, windows-1252, bogus, charset= in 2nd/3rd "
                 "position with spaces); ALL strings of length <= 2 (quick) / <= 3 (thorough) over that alphabet + "
                 "{D8,DC,9F,A0,8F,90,1B} with 58 header shapes for length <= 1 and a rotating 28 of them above (every UTF-8/UTF-16 label of encoding_rs, quoted, "
                 "empty, upper-case parameter name, Unicode white space, legacy encodings, replacement, "
                 "iso-2022-jp, unsupported media type); then 6000 (quick) / 90000 (thorough) structured or "
                 "random strings from one SplitMix64 state (valid UTF-8 with/without BOM, double BOM, UTF-16LE/BE "
                 "with right/wrong/no BOM, lone surrogates, odd length, overlong/surrogate/out-of-range/truncated "
                 "UTF-8, gb18030 BOM, ESC sequences, truncations) with up to 6 random header shapes each. Compared per "
                 "combination: header charset seen by the real resolver, error-vs-module, stored text bytes, "
                 "decoded kind, try_get_original_bytes(), size(), serialised size; the real observation is "
                 "also judged by the extracted decision procedure (C20_holdsb_correct). non-trivial = non-empty "
                 "byte string whose combinations show >= 2 different (outcome, kind) pairs; distinct = distinct "
                 "model input"),
        "assumptions": [
            "labels other than the UTF-8/UTF-16LE/UTF-16BE labels are answered by encoding_rs itself (oracle data: supported?, borrow rule, decoded scalars); the model adds BOM stripping, kind, original bytes, size on top",
            "media type resolution (extension / content-type media part) is data computed by the real crate",
            "module sources that do not parse are turned into dependency-free modules by a wrapping ModuleAnalyzer so that their stored text can be observed; texts that still start with U+FEFF are not handed to deno_ast (it panics on them in debug builds)",
            "serialised size equals the text length below 4 GiB (u32 truncation is modelled, larger texts are not generated)",
            "known finding F-C20a (the JSR deferred content fill ignores the charset of the response's content-type header) is reported as KNOWN-FINDING; the comparison of all observed values with the model is NOT suspended for it",
        ],
        "partial": ["on the JSR deferred content-fill route the text-is-decoding clause is proved only when the response header names no charset or a UTF-8 label (C20_jsr_fill_holds_outside_known_class); the unrestricted statement is refuted (C20_jsr_fill_ignores_header_refuted, F-C20a); the original-bytes and size clauses hold on every route"],
    },
    "C07": {
        "harness": "c07",
        "props_file": "Props/C07.v",
        "run_module": "Model.Packages Model.RunC07",
        "run_fn": "run_c07",
        "pinned_theorems": ["C07_version_print_parse", "C07_version_parse_canonical", "C07_pkg_url_shape",
                            "C07_url_roundtrip", "C07_url_unique_owner", "C07_to_nv_result_roundtrips",
                            "C07_url_no_misattribution", "C07_url_no_misattribution_text",
                            "C07_no_misattr_judgement_correct",
                            "C07_loose_version_refuted", "C07_double_slash_refuted", "C07_slashless_base_refuted",
                            "C07_scheme_like_scope_refuted",
                            "C07_export_iff_listed", "C07_exports_keys_unique", "C07_export_string",
                            "C07_export_object", "C07_export_object_last_wins", "C07_norm_export_shape",
                            "C07_table_refines", "C07_table_no_panic", "C07_table_mappings",
                            "C07_table_versions_by_name", "C07_table_packages", "C07_table_packages_with_deps",
                            "C07_table_sets"],
        "rule": ("four streams by case number. (url) registry URLs as serialised by url::Url (6 plain http(s) directory "
                 "URLs incl. userinfo/port/sub-path, 8 odd ones: no trailing slash, query, fragment, file:, custom scheme) x "
                 "package names (@scope/name from a 6-letter alphabet so prefixes collide, no-@ scopes, 25 adversarial: "
                 "empty, extra/missing slashes, scheme-like, dot segments, %2e, query/fragment/space/non-ASCII/backslash) x "
                 "versions (incl. u64::MAX, pre-release, build metadata): the real recommended_registry_package_url, and "
                 "recommended_registry_package_url_to_nv on package URL + paths, _meta.json / meta.json siblings, 17 "
                 "non-canonical version spellings, doubled slashes, look-alike hosts and paths, other scheme, "
                 "percent-encoded and upper-cased forms, query/fragment inside, unrelated URLs, random 1-2 character "
                 "mutants; values compared with the model, the real results judged (no misattribution, round trip) by the "
                 "extracted decision procedure. (version) Version::parse_standard on ALL strings of length <= 5 (quick) / "
                 "<= 6 (thorough) over {0,1,.,-,+,v,a,=} plus random version-like texts with Unicode whitespace, u64 "
                 "overflow, leading zeros; compared as accepted + canonical re-print. (exports) "
                 "deno_semver::jsr::normalized_export_name on sub-paths; JsrPackageVersionInfo parsed by serde_json from "
                 "hand-assembled manifests (exports absent/string/object with string, null, bool, number, array, object "
                 "values and REPEATED keys/other JSON): export(k) for 12 keys and the exports() set. (table) histories of "
                 "0-10 operations on the real PackageSpecifiers through its public API (add_nv directly or on "
                 "ModuleGraph.packages, ModuleGraph::fill_from_lockfile entries with version texts the loose parser "
                 "accepts/rejects, requirements and name@versions that are Eq-distinct but Ord-equal through build "
                 "metadata); observers mappings, versions_by_name, package_exports, packages_with_deps, is_empty, "
                 "packages_len, package_deps_sum, used_yanked_packages. non-trivial = url: >= 2 accepted and >= 2 rejected "
                 "URLs; version: both outcomes; exports: a hit and a miss; table: some requirement added twice"),
        "assumptions": [
            "Url::join is modelled only where the WHATWG path state copies its input (http(s) base, characters outside the path percent-encode set, no dot segments, not scheme-like); elsewhere the real package URL enters the judgement as data",
            "PackageSpecifiers::{ensure_package, add_dependency, add_export, add_top_level_package, add_used_yanked_package, top_level_packages} are pub(crate): the real table is driven through add_nv and fill_from_lockfile only; the other operations are covered by the theorems but not by the correspondence until the builder model drives them",
            "known findings F-C07a (loose version text), F-C07b (doubled slash), F-C07c (registry URL that is not a plain directory URL), F-C07d (scheme-like scope) are reported as KNOWN-FINDING; the model/implementation comparison of all values is NOT suspended for them",
        ],
        "partial": ["builder-level part of C07 (redirect insertion, unknown-export error, which operations the builder issues on the table) is not covered here",
                    "no-misattribution is proved outside four input classes; the unrestricted statement is refuted (4 witnesses)"],
    },
}

PROPS["C10"] = {
    "harness": "c10",
    "props_file": "Props/C10.v",
    "run_module": "Model.FcSummary Model.FcTransform Model.RunC10",
    "run_fn": "run_c10",
    "pinned_theorems": ["C10_erasedb_correct", "C10_erasedxb_correct", "C10_leavable_decided", "C10_fn_decided",
                        "C10_param_decided", "C10_member_decided", "C10_item_decided", "C10_classes_sound",
                        "C10_classes_none", "C10_model_erased_or_diagnostic",
                        "C10_model_strict_outside_known_classes", "C10_model_family", "C10_model_ctor",
                        "C10_first_error", "C10_arrow_kept_refuted", "C10_signature_no_return_type_refuted",
                        "C10_param_property_refuted"],
    "rule": ("three streams by case number. (corpus) every spec of tests/specs/graph/fast_check (incl. sub-directories) and "
             "tests/specs/graph/jsr (143 worlds) is rebuilt and run exactly as the spec runner does (port of parse_spec, "
             "fill_jsr_meta_files_with_checksums, TestLoader, WorkspaceMemberResolver; GraphKind::All build, then "
             "build_fast_check_type_graph with the spec's cache / workspace options), followed by 6 hand-written seed packages "
             "(one witness per known finding, two non-vacuity packages). (judged) generated JSR-style packages from an "
             "abstract mini-TS syntax (harness/src/fcheck/pkggen.rs): 1-4 modules x 3-15 declarations (functions with "
             "overloads, classes with constructors incl. parameter properties / methods / accessors / auto-accessors / "
             "properties / index signatures / static blocks, public | protected | private | #private, static, decorators, "
             "abstract; const/let/var; interfaces; aliases; enums; namespaces; default exports; export lists, re-exports, "
             "export *, export * as; parameters ident / optional / default / rest / destructured with or without "
             "annotation; initialisers from the leavable grammar, the simply-inferable forms and non-leavable forms; return "
             "statements in nested control flow; 20% adversarial packages add ambient forms, using, require, global "
             "augmentation, destructuring exports, export as namespace, expando properties), 70% served from the registry "
             "(first diagnostic only), 30% as workspace members (all diagnostics). Every module the REAL fast check emits "
             "is re-parsed with deno_ast, summarised (fcheck/sum.rs) and judged by the extracted, proved decision procedure "
             "erasedb; the count of function-likes is compared as a wire check. (model) one-module packages in which every "
             "declaration is exported: for every public function-like (function, const arrow / function expression, "
             "constructor incl. parameter properties, method, accessor) the source summary (fcheck/srcsum.rs) is given to "
             "the extracted MODEL of the transform, whose result - the diagnostics in raising order, or the emitted shape "
             "(per parameter: pattern, annotation class, optional, default class tree; return annotation class; async; "
             "generator; body shape; the synthesised property declarations of a constructor) - must equal what the real "
             "transform did (workspace mode collects all diagnostics; emitted shapes of undiagnosed units come from a "
             "second real run without the diagnosed declarations). The model stream starts with an EXHAUSTIVE small domain: all 3650 combinations of kind x return annotation x plain/async/generator x 10 body shapes (returns in if / if-else / loops / try / switch / nested function) x parameter lists (30 single and paired parameter forms) x arrow expression bodies, minus the syntactically impossible ones (2104 units). non-trivial = judged: some module emitted with a "
             "function-like or class; model: some unit emitted and some unit diagnosed. quick: 12000 judged + 8000 model "
             "packages; thorough: 300000 + 200000"),
    "assumptions": [
        "the property is decided on SUMMARIES of the emitted text: the SWC parser is trusted to parse what the emitter printed, and harness/src/fcheck/sum.rs is trusted to classify the AST (expression classes, placeholder recognition, body shapes); a summariser that loses a difference hides it",
        "'literal-like' is read as the code's documented leavable grammar (DESIGN.md C10); ambient items (declaration files, declare) are passed through by design and only required to have no bodies; enum declarations are opaque (the spec corpus pins computed enum initialisers being carried over); a TS-private constructor keeps its existence with no parameters",
        "known findings F-C10a (arrow with leavable expression body keeps body, async and no return type), F-C10b (bodyless signature without return type passes silently), F-C10c (parameter property without type becomes `declare x;`) are reported as KNOWN-FINDING; the model/implementation comparison is NOT suspended for them",
        "the model covers the function-like fragment (transform_fn, transform_arrow, transform_function_body_block_stmt, handle_param_pat, ParamsOptionalStartIndex, maybe_transform_expr_if_leavable, maybe_infer_type_from_expr, infer_simple_type_from_type, analyze_return_stmts_in_function_body, constructor part of transform_class_member); is_overload and the set of public ranges are inputs (the tracer is not modelled here); Symbol() is recognised syntactically (the generator never shadows Symbol)",
    ],
    "partial": ["sub-language: the transform model covers function-likes, parameters, leavable initialisers and constructors; "
                "classes/properties/variables/namespaces/imports are covered by the per-output judgement only",
                "the full statement is refuted for the model (3 witnesses, F-C10a-c); proved: erased up to those classes for all "
                "inputs, and strictly erased for sources without the three constructs"],
}

PROPS["C11"] = {
    "harness": "c11",
    "props_file": "Props/C11.v",
    "run_module": "Model.FcSummary Model.FcTransform Model.RunC10 Model.RunC11",
    "run_fn": "run_c11",
    "pinned_theorems": ["C11_api_preservedb_correct", "C11_items_decided", "C11_item_decided", "C11_class_decided",
                        "C11_member_decided", "C11_fn_decided", "C11_param_decided", "C11_subrel_decided",
                        "C11_classes_sound", "C11_classes_none", "C11_paren_refuted"],
    "rule": ("same corpus (143 spec worlds), seed packages and generated packages as C10's judged stream. For every module the "
             "REAL fast check emitted, the original and the emitted text are summarised with one string interner (canonical "
             "text = SWC printer output without whitespace; equal id <-> equal text). Resolved export name sets come from the "
             "real symbol API (ModuleInfoRef::exports) on the original graph and on a SECOND real graph in which every module "
             "with fast-check output is served with that output. Generated packages add the generator's intent: declared "
             "names that are neither exported from an entrypoint (directly, by export list, re-export, export *, export * as) "
             "nor reachable from such a declaration through references in annotations, heritage clauses, retained or "
             "analysed initialisers and enum initialisers. The extracted, proved decision procedure judges four clauses per "
             "pair: emitted exports are a subset of the original's; equal at entrypoints; every retained item matches its "
             "original (kind, name, export form, type parameters, heritage, written annotations by text, members, modulo the "
             "documented normalisations); no intent-dropped name is declared. The number of declared names is compared as a "
             "wire check. non-trivial = corpus/seed pair, or generated package with both retained public names and "
             "intent-dropped names. quick 12000 generated packages; thorough 300000"),
    "assumptions": [
        "export name sets are DATA computed by the real deno_graph symbol API on both sides (for the emitted side on a second graph built from the emitted texts); they are not re-derived in Coq",
        "annotation texts are compared through SWC's printer (to_code) with whitespace removed; `T | undefined` is recognised by the harness on the AST (last union member `undefined`)",
        "the generator's intent counts as 'referenced from the public API' also the operands of initialisers that the dependency analysis visits although the transform drops them (template operands, operands of inferred defaults): declarations kept only because of such operands are NOT reported (see the report: an over-retention of the tracer, arguably outside the statement's letter)",
        "overload implementations, TS-private members, private constructors' parameters, #private members, static blocks, auto-accessors and parameter properties are compared up to their documented erasure (reading guide in Model/RunC11.v)",
        "known finding F-C11a (optional/default parameter of function / constructor / conditional type before a required one loses its parentheses) is reported as KNOWN-FINDING",
    ],
    "partial": ["per-pair verified check only: there is no Gallina model of the tracer / of declaration retention here (C09's tracer model is not built); "
                "'neither exported nor referenced' is checked against the generator's recorded intent for generated packages and not for the corpus"],
}
