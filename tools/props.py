"""Per-property configuration of tools/check."""

PROPS = {
    "C15": {
        "harness": "c15",
        "props_file": "Props/C15.v",
        "run_module": "Model.Graph Model.Walk Model.RunC15",
        "run_fn": "run_c15",
        "pinned_theorems": ["C15_terminates", "C15_once", "C15_exact", "C15_entries", "C15_errors"],
        "rule": ("worlds of 2-10 modules generated from one SplitMix64 state (JS/TS/JSX/TSX/d.ts/JSON, "
                 "static/dynamic/type-only/@deno-types/reference/self-types/x-typescript-types imports, "
                 "file/http/https, redirects, missing, erroring, external, lockfile-seeded and "
                 "caller-inserted redirects incl. cycles) are built with the real builder; each graph "
                 "is walked with 6 random (kind, follow_dynamic, check_js incl. custom, "
                 "prefer_fast_check, roots, skip policy) queries by the real iterator and by the "
                 "extracted model; yielded (specifier, entry kind) multisets and error multisets must "
                 "be equal. non-trivial = graph with >= 2 modules and >= 6 yields over its queries; "
                 "distinct = distinct abstract (graph, queries) input"),
        "assumptions": [
            "roots are given as a set (the property quantifies over root subsets)",
            "URL/scheme/media-type facts enter the model as data computed by the real crates",
        ],
    },
    "C02": {
        "harness": "c02",
        "props_file": "Props/C02.v",
        "run_module": "Model.Graph Model.Walk Model.RunC15 Model.RunC02",
        "run_fn": "run_c02",
        "pinned_theorems": ["C02_validate_iff", "C02_valid_iff", "C02_valid_edges",
                            "C02_reachable_failure_not_skipped_outside_known_class", "C02_error_names",
                            "C02_failsb_correct", "C02_follow_dynamic_missing_root_refuted"],
        "rule": ("same real graphs as C15 (faults: missing, load error, parse error, unsupported media, bad "
                 "resolution, https->http, literal file:// from remote, behind static/dynamic/code/type edges "
                 "and redirect chains); 8 validations per graph (the first is ModuleGraph::valid() itself, the "
                 "others random kind x follow_dynamic x check_js x prefer_fast_check x root subsets). The real "
                 "verdict is judged by the extracted, proved-correct decision procedure (failsb) and compared "
                 "with the model's verdict. non-trivial = graph with >= 2 modules where some but not all "
                 "validations fail"),
        "assumptions": [
            "roots are given as a set",
            "known finding F-C02a (follow_dynamic drops Missing slot errors that no dependency reports) is reported as KNOWN-FINDING",
        ],
        "partial": ["for follow_dynamic = true only C02_reachable_failure_not_skipped_outside_known_class is proved; the iff is refuted (F-C02a)"],
    },
    "C14": {
        "harness": "c14",
        "props_file": "Props/C14.v",
        "run_module": "Model.Graph Model.Walk Model.RunC15 Model.RunC02 Model.RunC14",
        "run_fn": "run_c14",
        "pinned_theorems": ["C14_resolve_terminates", "C14_resolve_reaches_end", "C14_idempotent", "C14_walk_end",
                            "C14_agree", "C14_specifiers_one_hop", "C14_prefer_types", "C14_prefer_code",
                            "C14_cycle_refuted", "C14_ten_hops_refuted", "C14_specifiers_two_hops_refuted",
                            "C14_shadow_refuted"],
        "rule": ("worlds built around 1-3 redirect chains of length 1..13 (quick) / 1..26 (thorough), made of loader "
                 "redirects and/or lockfile-seeded redirects, ending at a module, a missing module, a load error, or "
                 "cycling back into the chain; loader max_redirects in {3,10,25}; modules import chain heads "
                 "statically/dynamically/type-only and via @deno-types/@ts-self-types. For EVERY specifier known "
                 "to the graph the real resolve/get/contains/try_get/try_get_prefer_types and the end of the REAL "
                 "walk from it are compared with the model's; specifiers() and resolve_dependency(+-types) of every "
                 "dependency likewise; the extracted decision procedure judges the real lookups against the real "
                 "walk end. non-trivial = graph with >= 2 redirects"),
        "assumptions": [
            "known findings F-C14a (cycle), F-C14b (>9 hops), F-C14c (specifiers() one hop only), F-C14d (entry at a redirect source) are reported as KNOWN-FINDING; the model/implementation comparison of all lookup values is NOT suspended for them",
        ],
        "partial": ["agreement with the walk is proved for chains of <= 9 hops without shadowing; the unrestricted statement is refuted (4 witnesses)"],
    },
    "C17": {
        "harness": "c17",
        "props_file": "Props/C17.v",
        "run_module": "Model.Graph Model.Walk Model.RunC15 Model.RunC02 Model.RunC14 Model.Prune Model.RunC17",
        "run_fn": "run_c17",
        "pinned_theorems": ["C17_terminates", "C17_entries", "C17_code_view_unchanged", "C17_no_types_left",
                            "C17_code_only_noop"],
        "rule": ("worlds of 2-10 modules satisfying the same-attribute proviso (the `type` attribute used for a "
                 "target is a function of the target; roots/configured imports/redirect sources are requested "
                 "without attribute), default build options; each world is built three ways on the REAL code: "
                 "all kinds, all kinds + prune_types, code only (without configured type imports). Checked: real "
                 "prune result == model prune of the abstracted all-kinds graph (full structural equality), "
                 "nothing type-related left in the real pruned graph, and observational code-equality of the "
                 "real pruned graph with the real code-only build (extracted obs_code_eqb: entries with module "
                 "kind/media/error kind, redirects, code edges as sets with targets and dynamic flags, valid() "
                 "verdict). non-trivial = all-kinds graph with >= 3 entries of which pruning removes at least one"),
        "assumptions": [
            "default build options (with skip_dynamic_deps a dynamically imported module loaded through a type edge survives pruning but is absent from the code-only build: recorded as an observation in DESIGN.md)",
            "known findings F-C17a (context-dependent acceptance of attribute-less JSON) and F-C17b (position of the TooManyRedirects error on a redirect cycle) are reported as KNOWN-FINDING",
        ],
        "partial": ["the build-level equality prune(build All) = build CodeOnly is decided on the real code per case; its theorem over a builder model is not yet proved"],
    },
    "C18": {
        "harness": "c18",
        "props_file": "Props/C18.v",
        "run_module": "Model.Graph Model.Walk Model.RunC15 Model.RunC02 Model.RunC14 Model.Prune Model.RunC17 Model.RunC18",
        "run_fn": "run_c18",
        "pinned_theorems": ["C18_terminates", "C18_clone", "C18_entries", "C18_self_contained_correct",
                            "C18_typesonly_refuted"],
        "rule": ("same proviso worlds as C17, graph kind in {All, CodeOnly, TypesOnly} (configured type imports only "
                 "for kinds that include types), 1-2 segment roots among the graph's modules (12%: the original "
                 "roots, exercising the clone shortcut). Checked on the REAL code: real segment == model segment "
                 "of the abstracted graph (full structural equality); every dependency of every module of the real "
                 "segment resolves (with and without type preference) and try_gets as in the real original, and "
                 "three validations agree (extracted self_contained, proved equivalent to the declarative "
                 "statement); entries+redirects of the real segment == those of a real direct build of the segment "
                 "roots. non-trivial = segment roots not all original roots, segment has >= 2 entries and fewer "
                 "than the original"),
        "assumptions": [
            "known findings F-C18a (types-only segment drops a JS module that has a types dependency), F-C18b (context-dependent acceptance of attribute-less JSON, same cause as F-C17a) and the C14 entry-at-redirect/cycle family are reported as KNOWN-FINDING",
        ],
        "partial": ["self-containedness and equality with a direct build are decided per case on the real code; graph-level theorems characterise the segment's contents"],
    },
    "C06": {
        "harness": "c06",
        "props_file": "Props/C06.v",
        "run_module": "Model.Version Model.RunC06",
        "run_fn": "run_c06",
        "pinned_theorems": ["C06_resolve_version", "C06_select", "C06_select_unique", "C06_select_unique_up_to_rank", "C06_order_free",
                            "C06_order_free_perm", "C06_wf_ranks_decided", "C06_wf_nodup_decided",
                            "C06_get_for_package", "C06_excluded", "C06_not_excluded",
                            "C06_no_cutoff_no_date_filter", "C06_error_flag", "C06_cutoff_strict",
                            "C06_no_creation_date_is_old", "C06_spec_okb_correct",
                            "C06_order_free_equal_rank_refuted"],
        "rule": ("selection-function level, direct calls to the public deno_graph::packages API. (a) EVERY registry "
                 "info made of <= 3 of the versions {0.9.0, 1.0.0, 1.1.0, 2.0.0-beta.1, 2.0.0}, each yanked or not and "
                 "created never/before/at/after the cutoff (5801 infos), x 3 option sets (no date / date / date with "
                 "the package excluded by exact name or prefix) x 6 requirements (*, ^1, ~1.0, 1.1.0, >=2.0.0-0, ^3) x "
                 "existing sets x cached sets: quick = the empty set plus seeded selections (existing drawn from all "
                 "of the 5 versions, so lockfile seeds absent from the registry occur; repeated elements occur), "
                 "thorough = all 32 existing subsets x all cached subsets (+ one cached version absent from the "
                 "registry); (b) sampled infos of 4-5 of the 5 and 3-6 of a wider 9-version universe; (c) explicit "
                 "queries on a 12-version universe that contains versions differing in build metadata only: each is "
                 "answered by the real code under two different iteration orders of the same registry HashMap "
                 "(fresh RandomStates until the wanted order appears), both answers are judged by the extracted, "
                 "proved decision procedure spec_okb and for equality; (d) NewestDependencyDateOptions::"
                 "get_for_package exhaustively over 11 names x all option sets with <= 2 exclusions, <= 2 prefixes, "
                 "date on/off; (e) the free function resolve_version on explicit sequences with repeats. "
                 "Version::cmp enters as a dense rank (checked to be a total preorder), VersionReq::matches as a "
                 "matrix. non-trivial = case with at least two different outcome classes (unyanked / yanked / dated "
                 "error / plain error; cutoff in force / not; some / none)"),
        "assumptions": [
            "Version::cmp and VersionReq::matches enter the model as data computed by deno_semver on the case's versions",
            "graph-level resolution (resolve_jsr_nv, cached-manifest probe, tag rejection, lockfile seeding, used-yanked bookkeeping) is not covered yet: it needs the builder model",
            "the cutoff comparison follows the code (created < cutoff); the boundary is not reported as a violation (DESIGN.md C06)",
            "known finding F-C06a (registry versions that differ in build metadata only: the pick depends on HashMap iteration order) is reported as KNOWN-FINDING",
        ],
        "partial": ["selection function only; order independence is proved for version sets that Version::cmp separates, "
                    "the unrestricted statement is refuted (F-C06a)"],
    },
    "C08": {
        "harness": "c08",
        "props_file": "Props/C08.v",
        "run_module": "Model.TextPos Model.Pragma Model.RunC08",
        "run_fn": "run_c08",
        "pinned_theorems": ["C08_pos_roundtrip", "C08_pos_roundtrip_bom_refuted", "C08_pos_inside_char_refuted",
                            "C08_pos_monotone", "C08_slice_exact", "C08_recognise_capture", "C08_range_exact",
                            "C08_range_html_comment_refuted", "C08_quoteless_capture_swallows_refuted", "C08_includes", "C08_lookup_own_range", "C08_lookup",
                            "C08_lookup_touching_refuted", "C08_ranges_apart_decided", "C08_items_apart_decided",
                            "C08_deps_apart_lookup", "C08_quoted_judge_correct", "C08_literal_judge_correct",
                            "C08_once_judge_correct"],
        "rule": ("(1) every module source embedded in /repo/tests/specs/**/*.txt (spec-file format of "
                 "tests/specs_test.rs; JS/TS-like media types) and hand-written seeds, (2) generated programs "
                 "(80% structured with a planted dependency list, 20% adversarial): js/mjs/cjs/jsx/ts/mts/tsx/d.ts, "
                 "LF/CRLF/CR, BOM, shebang, header pragmas (triple-slash path/types+resolution-mode, @ts-self-types, "
                 "@jsxImportSource(+Types), wrong-kind look-alikes), static imports/exports (attributes, type-only, "
                 "import-equals, declare module), import types incl. nested, dynamic import/require with literal, "
                 "template, concatenation and opaque arguments inside functions/try/if, @ts-types/@deno-types incl. "
                 "quote-less, JSDoc import()/@import, sourceMappingURL, string literals with \\x, \\u, \\u{}, "
                 "line-continuation escapes, trivia with non-ASCII/astral/combining characters on the same line: the "
                 "REAL ParserModuleAnalyzer::analyze_sync and the REAL deno_graph::parse_module are run; every "
                 "reported specifier range is mapped back with the extracted offset_of_pos and judged by the proved "
                 "Coq procedures (slice = literal whose cooked value per the real parser is the reported text / "
                 "quoted or quote-less pragma text; pairwise separation; planted = reported as multisets; "
                 "first/middle/last/end position lookups through the real Dependency::includes return the owning "
                 "dependency); for pragma items the model's recogniser + comment_range run on the real comment must "
                 "reproduce the reported (range, text, resolution mode); (3) 50 000 comment texts per regex function "
                 "(x10) structured around the keyword: random case, U+017F, Unicode White_Space and look-alikes, "
                 "quote variants, near-misses, second candidates - model recogniser vs the real find_* functions; "
                 "(4) 20 000 texts: pos_of_offset on EVERY byte offset vs the real Position::from_source_pos "
                 "(text_lines), incl. offsets inside multi-byte characters and BOM-led texts. non-trivial = analysis "
                 "case with >= 2 reported items, a line break or non-ASCII text, and an item not at 0:0 / batch with "
                 "both matching and non-matching texts / batch with a line break and a multi-byte character"),
        "assumptions": [
            "the SWC parser is not modelled: completeness of dependency discovery w.r.t. real syntax is sampled by the generator (planted = reported) and not proved (layer (b) of DESIGN.md C08, the mini-syntax collector model, is not built yet)",
            "the cooked value of a string / template literal is data computed by the real parser on the slice",
            "the JSDoc mini-parsers (monch) are not modelled; their output is judged, not predicted",
            "known findings F-C08a (HTML-like comments: ranges off by one / analysis panics) and F-C08b (a quote-less pragma capture that swallows a JSDoc import) are reported as KNOWN-FINDING",
        ],
        "partial": ["theorems cover range arithmetic, recognisers and lookups for all strings; 'every dependency exactly once' "
                    "is decided per generated program by the proved multiset judge, not proved over a syntax model",
                    "C08_pos_roundtrip excludes offset 0 of a BOM-led text and offsets inside a character (both refuted with witnesses that agree with text_lines)"],
    },
}
