"""Per-property configuration of tools/check."""

PROPS = {
    "C15": {
        "harness": "c15",
        "props_file": "Props/C15.v",
        "run_module": "Model.Graph Model.Walk Model.RunC15",
        "run_fn": "run_c15",
        "pinned_theorems": ["C15_terminates", "C15_once", "C15_exact", "C15_entries", "C15_errors"],
        "rule": ("worlds of 2-10 modules generated from one SplitMix64 state (JS/TS/JSX/TSX/d.ts/JSON, "
                 "static/dynamic/type-only/@deno-types/reference/self-types/x-typescript-types imports, "
                 "file/http/https, redirects, missing, erroring, external, lockfile-seeded and "
                 "caller-inserted redirects incl. cycles) are built with the real builder; each graph "
                 "is walked with 6 random (kind, follow_dynamic, check_js incl. custom, "
                 "prefer_fast_check, roots, skip policy) queries by the real iterator and by the "
                 "extracted model; yielded (specifier, entry kind) multisets and error multisets must "
                 "be equal. non-trivial = graph with >= 2 modules and >= 6 yields over its queries; "
                 "distinct = distinct abstract (graph, queries) input"),
        "assumptions": [
            "roots are given as a set (the property quantifies over root subsets)",
            "URL/scheme/media-type facts enter the model as data computed by the real crates",
        ],
    },
    "C02": {
        "harness": "c02",
        "props_file": "Props/C02.v",
        "run_module": "Model.Graph Model.Walk Model.RunC15 Model.RunC02",
        "run_fn": "run_c02",
        "pinned_theorems": ["C02_validate_iff", "C02_valid_iff", "C02_valid_edges",
                            "C02_reachable_failure_not_skipped_outside_known_class", "C02_error_names",
                            "C02_failsb_correct", "C02_follow_dynamic_missing_root_refuted"],
        "rule": ("same real graphs as C15 (faults: missing, load error, parse error, unsupported media, bad "
                 "resolution, https->http, literal file:// from remote, behind static/dynamic/code/type edges "
                 "and redirect chains); 8 validations per graph (the first is ModuleGraph::valid() itself, the "
                 "others random kind x follow_dynamic x check_js x prefer_fast_check x root subsets). The real "
                 "verdict is judged by the extracted, proved-correct decision procedure (failsb) and compared "
                 "with the model's verdict. non-trivial = graph with >= 2 modules where some but not all "
                 "validations fail"),
        "assumptions": [
            "roots are given as a set",
            "known finding F-C02a (follow_dynamic drops Missing slot errors that no dependency reports) is reported as KNOWN-FINDING",
        ],
        "partial": ["for follow_dynamic = true only C02_reachable_failure_not_skipped_outside_known_class is proved; the iff is refuted (F-C02a)"],
    },
    "C14": {
        "harness": "c14",
        "props_file": "Props/C14.v",
        "run_module": "Model.Graph Model.Walk Model.RunC15 Model.RunC02 Model.RunC14",
        "run_fn": "run_c14",
        "pinned_theorems": ["C14_resolve_terminates", "C14_resolve_reaches_end", "C14_idempotent", "C14_walk_end",
                            "C14_agree", "C14_specifiers_one_hop", "C14_prefer_types", "C14_prefer_code",
                            "C14_cycle_refuted", "C14_ten_hops_refuted", "C14_specifiers_two_hops_refuted",
                            "C14_shadow_refuted"],
        "rule": ("worlds built around 1-3 redirect chains of length 1..13 (quick) / 1..26 (thorough), made of loader "
                 "redirects and/or lockfile-seeded redirects, ending at a module, a missing module, a load error, or "
                 "cycling back into the chain; loader max_redirects in {3,10,25}; modules import chain heads "
                 "statically/dynamically/type-only and via @deno-types/@ts-self-types. For EVERY specifier known "
                 "to the graph the real resolve/get/contains/try_get/try_get_prefer_types and the end of the REAL "
                 "walk from it are compared with the model's; specifiers() and resolve_dependency(+-types) of every "
                 "dependency likewise; the extracted decision procedure judges the real lookups against the real "
                 "walk end. non-trivial = graph with >= 2 redirects"),
        "assumptions": [
            "known findings F-C14a (cycle), F-C14b (>9 hops), F-C14c (specifiers() one hop only), F-C14d (entry at a redirect source) are reported as KNOWN-FINDING; the model/implementation comparison of all lookup values is NOT suspended for them",
        ],
        "partial": ["agreement with the walk is proved for chains of <= 9 hops without shadowing; the unrestricted statement is refuted (4 witnesses)"],
    },
    "C07": {
        "harness": "c07",
        "props_file": "Props/C07.v",
        "run_module": "Model.Packages Model.RunC07",
        "run_fn": "run_c07",
        "pinned_theorems": ["C07_version_print_parse", "C07_version_parse_canonical", "C07_pkg_url_shape",
                            "C07_url_roundtrip", "C07_url_unique_owner", "C07_to_nv_result_roundtrips",
                            "C07_url_no_misattribution", "C07_url_no_misattribution_text",
                            "C07_no_misattr_judgement_correct",
                            "C07_loose_version_refuted", "C07_double_slash_refuted", "C07_slashless_base_refuted",
                            "C07_scheme_like_scope_refuted",
                            "C07_export_iff_listed", "C07_exports_keys_unique", "C07_export_string",
                            "C07_export_object", "C07_export_object_last_wins", "C07_norm_export_shape",
                            "C07_table_refines", "C07_table_no_panic", "C07_table_mappings",
                            "C07_table_versions_by_name", "C07_table_packages", "C07_table_packages_with_deps",
                            "C07_table_sets"],
        "rule": ("four streams by case number. (url) registry URLs as serialised by url::Url (6 plain http(s) directory "
                 "URLs incl. userinfo/port/sub-path, 8 odd ones: no trailing slash, query, fragment, file:, custom scheme) x "
                 "package names (@scope/name from a 6-letter alphabet so prefixes collide, no-@ scopes, 25 adversarial: "
                 "empty, extra/missing slashes, scheme-like, dot segments, %2e, query/fragment/space/non-ASCII/backslash) x "
                 "versions (incl. u64::MAX, pre-release, build metadata): the real recommended_registry_package_url, and "
                 "recommended_registry_package_url_to_nv on package URL + paths, _meta.json / meta.json siblings, 17 "
                 "non-canonical version spellings, doubled slashes, look-alike hosts and paths, other scheme, "
                 "percent-encoded and upper-cased forms, query/fragment inside, unrelated URLs, random 1-2 character "
                 "mutants; values compared with the model, the real results judged (no misattribution, round trip) by the "
                 "extracted decision procedure. (version) Version::parse_standard on ALL strings of length <= 5 (quick) / "
                 "<= 6 (thorough) over {0,1,.,-,+,v,a,=} plus random version-like texts with Unicode whitespace, u64 "
                 "overflow, leading zeros; compared as accepted + canonical re-print. (exports) "
                 "deno_semver::jsr::normalized_export_name on sub-paths; JsrPackageVersionInfo parsed by serde_json from "
                 "hand-assembled manifests (exports absent/string/object with string, null, bool, number, array, object "
                 "values and REPEATED keys/other JSON): export(k) for 12 keys and the exports() set. (table) histories of "
                 "0-10 operations on the real PackageSpecifiers through its public API (add_nv directly or on "
                 "ModuleGraph.packages, ModuleGraph::fill_from_lockfile entries with version texts the loose parser "
                 "accepts/rejects, requirements and name@versions that are Eq-distinct but Ord-equal through build "
                 "metadata); observers mappings, versions_by_name, package_exports, packages_with_deps, is_empty, "
                 "packages_len, package_deps_sum, used_yanked_packages. non-trivial = url: >= 2 accepted and >= 2 rejected "
                 "URLs; version: both outcomes; exports: a hit and a miss; table: some requirement added twice"),
        "assumptions": [
            "Url::join is modelled only where the WHATWG path state copies its input (http(s) base, characters outside the path percent-encode set, no dot segments, not scheme-like); elsewhere the real package URL enters the judgement as data",
            "PackageSpecifiers::{ensure_package, add_dependency, add_export, add_top_level_package, add_used_yanked_package, top_level_packages} are pub(crate): the real table is driven through add_nv and fill_from_lockfile only; the other operations are covered by the theorems but not by the correspondence until the builder model drives them",
            "known findings F-C07a (loose version text), F-C07b (doubled slash), F-C07c (registry URL that is not a plain directory URL), F-C07d (scheme-like scope) are reported as KNOWN-FINDING; the model/implementation comparison of all values is NOT suspended for them",
        ],
        "partial": ["builder-level part of C07 (redirect insertion, unknown-export error, which operations the builder issues on the table) is not covered here",
                    "no-misattribution is proved outside four input classes; the unrestricted statement is refuted (4 witnesses)"],
    },
}
