#!/bin/bash
# usage: confirm_seed.sh <worktree> <pid-lower> <outdir>
# Confirms a seeded change in a scratch worktree with a PRIVATE cargo target dir:
# suite passes with it, demo fails with it, demo passes without it.
wt=$1; pid=$2; out=$3
mkdir -p $out
cd $wt || exit 2
tgt=/tmp/mut-target-$pid
# reuse the target directory the seeding agent built in, when there is one
PID=$(echo $pid | tr a-z A-Z)
[ -d /tmp/seed-$PID-target ] && tgt=/tmp/seed-$PID-target
[ -d $tgt ] || { [ -d /tmp/mut-target ] && cp -r /tmp/mut-target $tgt; }
export CARGO_TARGET_DIR=$tgt CARGO_NET_OFFLINE=true
git diff -- src > $out/patch.diff
cp tests/seeded_$pid.rs $out/demo_test.rs 2>/dev/null
[ -f seeded_out/notes.md ] && cp seeded_out/notes.md $out/notes.md
echo "== demo WITH change" > $out/confirm.log
touch src/lib.rs
cargo test --offline --test seeded_$pid 2>&1 | tail -25 >> $out/confirm.log; with=${PIPESTATUS[0]}
echo "== suite WITH change (demo excluded)" >> $out/confirm.log
mv tests/seeded_$pid.rs /tmp/seeded_$pid.rs.keep
cargo test --workspace --no-fail-fast --offline > $out/suite.log 2>&1; suite=$?
grep -E "^test result|FAILED|failed" $out/suite.log | head -20 >> $out/confirm.log
mv /tmp/seeded_$pid.rs.keep tests/seeded_$pid.rs
git apply -R $out/patch.diff
touch src/lib.rs
echo "== demo WITHOUT change" >> $out/confirm.log
cargo test --offline --test seeded_$pid 2>&1 | tail -8 >> $out/confirm.log; without=${PIPESTATUS[0]}
git apply $out/patch.diff
echo "RESULT demo_with_change_exit=$with suite_with_change_exit=$suite demo_without_change_exit=$without" | tee -a $out/confirm.log
rm -f $out/suite.log
